#!/bin/bash
# applyseed.sh <ID> : applies /verif/seeded/<ID>/patch.diff to /repo's working tree (undo: git -C /repo checkout -- .)
P=/verif/seeded/$1/patch.diff
[ -f "$P" ] || P=/tmp/seed/out/$1/patch.diff
git -C /repo apply "$P" 2>/dev/null || (cd /repo && patch -p1 -F 8 --no-backup-if-mismatch -s < "$P")
