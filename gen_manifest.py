#!/usr/bin/env python3
# Generates MANIFEST.json from manifest_src.json-like data kept here (one place to edit).
import json, subprocess
claimed = json.load(open('/verif/claims.json'))
props = [json.loads(l) for l in open('/verif/properties.jsonl')]
checks, na = [], []
for p in props:
    pid = p['id']
    c = claimed.get(pid)
    if c and c.get('claimed'):
        checks.append({
            "property_id": pid,
            "quick_cmd": f"/verif/vcheck {pid} quick",
            "thorough_cmd": f"/verif/vcheck {pid} thorough",
            "evidence_file": f"/verif/evidence/{pid}.json",
            "replay_cmd_template": "cat {path}",
            "engine": "govc",
            "level_claimed": {"category": "proof", "text": c['text'], "design_ref": c.get('design_ref', f"DESIGN.md §5-{pid}")},
            "level_note": c['note'],
            "technique": "contract-based deductive verification: weakest-precondition style VCs generated from the typed AST of /repo by govc, discharged by z3/cvc5",
        })
    else:
        na.append({"property_id": pid, "reason": (c or {}).get('reason', 'no contract landed yet for this property in this build; see DESIGN.md')})
try:
    commits = subprocess.check_output(['git','-C','/repo','log','--format=%H %s','9309c15..HEAD']).decode().strip().split('\n')
except Exception:
    commits = []
hooks = [c.split()[0] for c in commits if c and ' verif:' in c]
m = {
 "version": 1,
 "setup_cmd": "cd /verif/govc && GOFLAGS=-mod=mod GOPROXY=off GOSUMDB=off GOTOOLCHAIN=local go build -o /verif/bin/govc .",
 "hooks": {"guard": "verif", "enable": "go/packages loads /repo with -tags verif; the guarded files (contracts_verif.go per package) contain only a build constraint, a package clause and //@ contract comments — no code", "baseline_off_cmd": "for m in $(cat /w/out/gomods.txt); do MF=$(cd /repo/$m && . /w/out/goenv.sh && gomodflag); (cd /repo/$m && go test $MF -json -vet=off -count=1 -timeout 25m ./...); done", "source_commits": hooks, "add_only": True},
 "engines": [{"name": "govc", "path": "/verif/govc", "serves_properties": [c['property_id'] for c in checks], "kind_free_text": "self-built VC generator for Go (typed AST symbolic execution with state merging, loop invariants, modular callee contracts) + SMT solver race (z3 5.1.0, z3 4.8.12, cvc5 1.0.3)"}],
 "checks": checks,
 "not_applicable": na,
 "notes": "Contracts live in /repo/<pkg>/contracts_verif.go behind build tag verif. See /verif/DESIGN.md. Known findings: /verif/known_findings.txt.",
}
json.dump(m, open('/verif/MANIFEST.json','w'), indent=1)
print("checks:", [c['property_id'] for c in checks])
