#!/bin/bash
# refactortest.sh <patch.diff> : applies a behaviour-preserving patch to /repo, runs every registered check,
# reports alarms (exit!=0 / VIOLATION) and UNDECIDED functions, then restores /repo and the evidence files.
P=$1
if [ -n "$(git -C /repo status --porcelain)" ]; then echo "refactortest: /repo dirty" >&2; exit 2; fi
SAVE=$(mktemp -d /var/tmp/govc-evid.XXXXXX); cp -a /verif/evidence/. $SAVE/
git -C /repo apply "$P" 2>/dev/null || (cd /repo && patch -p1 -F 8 --no-backup-if-mismatch -s < "$P") || { echo "$P: DOES-NOT-APPLY"; git -C /repo checkout -- .; exit 2; }
ALARMS=0; UND=0
for p in $(python3 -c "import json;print(' '.join(c['property_id'] for c in json.load(open('/verif/MANIFEST.json'))['checks']))"); do
  out=$(/verif/vcheck $p quick 2>&1); rc=$?
  if [ $rc -ne 0 ]; then ALARMS=$((ALARMS+1)); echo "$P: ALARM $p exit=$rc"; echo "$out" | grep -E "^(FAILED|VIOLATION)" | cut -c1-220; fi
  u=$(echo "$out" | grep -c "^UNDECIDED"); if [ $u -gt 0 ]; then UND=$((UND+u)); echo "$out" | grep "^UNDECIDED" | cut -c1-200; fi
done
echo "$P: alarms=$ALARMS undecided=$UND"
git -C /repo checkout -- . ; git -C /repo clean -fdq
cp -a $SAVE/. /verif/evidence/; rm -rf $SAVE
