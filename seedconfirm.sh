#!/bin/bash
# seedconfirm.sh <ID> [base=/tmp/seed] [suffix=] [worktree base=base] : independently confirms a seeded change produced under /tmp/seed/out/<ID>
# (demo fails with the patch, passes without; touched packages' existing tests pass with the patch)
# in the scratch worktree /tmp/seed/<ID>, then stores it under /verif/seeded/<ID>/.
export GOFLAGS=-mod=mod GOPROXY=off GOSUMDB=off GOTOOLCHAIN=local
ID=$1; B=${2:-/tmp/seed}; SUF=${3:-}; TB=${4:-$B}; T=$TB/$ID; O=$B/out/$ID; L=$B/out/$ID/confirm.log
cd $T || exit 2
git checkout -q -- . ; git clean -fdq
DEMO=$(python3 -c "
import json,re
d=json.load(open('$O/meta.json'))['demo_cmd']
d=re.sub(r'\s{2,}\(.*\)\s*$','',d)
d=re.sub(r'\s{2,}#.*$','',d)
print(d)")
: > $L
echo "== apply patch" >> $L; git apply $O/patch.diff >> $L 2>&1 || { echo "APPLY-FAILED" >> $L; echo "$ID apply-failed"; exit 1; }
mkdir -p $O/ov; grep -v libp2pquic $T/clusterhost.go > $O/ov/clusterhost.go; grep -v libp2pquic $T/api/rest/restapi.go > $O/ov/restapi.go
PKGS=$(git diff --name-only | xargs -n1 dirname | sort -u | sed 's|^|./|')
printf '{"Replace":{"%s/clusterhost.go":"%s/ov/clusterhost.go","%s/api/rest/restapi.go":"%s/ov/restapi.go"}}' $T $O $T $O > $O/ov/ov.json
echo "== demo with patch (must fail)" >> $L; (eval "$DEMO") >> $L 2>&1; R1=$?
# remove demo files before running the existing tests
git clean -fdq
echo "== existing tests with patch (must pass): $PKGS" >> $L
R2=0
for p in $PKGS; do
  case "$p" in ./|./.|./api/rest*|./cmdutils*|./cmd/ipfs-cluster-service*|./cmd/ipfs-cluster-follow*|./test*) echo "skip $p (not in the offline baseline)" >> $L;;
  *) go test -vet=off -count=1 -timeout 600s $p >> $L 2>&1 || R2=1;;
  esac
done
echo "== build all with overlay" >> $L; go build -overlay $O/ov/ov.json ./... >> $L 2>&1; R4=$?
git checkout -q -- .
grep -v libp2pquic $T/clusterhost.go > $O/ov/clusterhost.go; grep -v libp2pquic $T/api/rest/restapi.go > $O/ov/restapi.go
echo "== demo without patch (must pass)" >> $L; (eval "$DEMO") >> $L 2>&1; R3=$?
git clean -fdq; git checkout -q -- .
echo "$ID demo_with_patch_exit=$R1 existing_with_patch_exit=$R2 demo_without_patch_exit=$R3 build=$R4" | tee -a $L
if [ $R1 -ne 0 ] && [ $R2 -eq 0 ] && [ $R3 -eq 0 ] && [ $R4 -eq 0 ]; then
  mkdir -p /verif/seeded/$ID$SUF; cp $O/patch.diff /verif/seeded/$ID$SUF/; rm -rf /verif/seeded/$ID$SUF/demo; cp -r $O/demo /verif/seeded/$ID$SUF/demo
  python3 - <<P
import json
m=json.load(open('$O/meta.json'))
m['confirmed_by_main_session']={'ran':'/verif/seedconfirm.sh $ID','demo_with_patch_exit':$R1,'existing_tests_with_patch_exit':$R2,'demo_without_patch_exit':$R3,'packages_tested':'''$PKGS'''.split()}
json.dump(m,open('/verif/seeded/$ID$SUF/meta.json','w'),indent=1)
P
  echo "$ID CONFIRMED"
else
  echo "$ID NOT-CONFIRMED (see $L)"
fi
