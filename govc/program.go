package main

// program.go: loading /repo (with the quic overlay and tag verif), contract
// files, and program-wide lookups.

import (
	"bytes"
	"fmt"
	"go/ast"
	"go/format"
	"go/parser"
	"go/token"
	"go/types"
	"os"
	"path/filepath"
	"sort"
	"strings"

	"golang.org/x/tools/go/packages"
)

type globalInfo struct {
	expr          ast.Expr
	isErrSentinel bool
}

type Program struct {
	repo    string
	modPath string
	fset    *token.FileSet
	pkgs    []*packages.Package
	byPath  map[string]*packages.Package
	specs   *Specs
	decls   map[*types.Func]*ast.FuncDecl
	declPkg map[*types.Func]*packages.Package
	globals map[*types.Var]*globalInfo
	mutatedGlobals map[types.Object]bool
	boxCache map[ast.Node]map[types.Object]bool

	// per-run scratch (keyed by Exec)
	tmpInit    map[*Exec]map[string]Val
	tmpGlobals map[*Exec]map[string]Val
	litVals    map[string]*ast.FuncLit
	interior   map[string]*lval
	dropped    map[string]int
	inlined    map[string]bool
	usedContracts map[string]bool
	noContract    map[string]bool
	acqMemo       map[*types.Func]map[string]bool
	replayPlans   map[string]*replayPlan // report name -> bound replay template
	overlayBytes  map[string][]byte      // the quic overlay (real path -> stripped content)
	verifDir      string
	overlayNote string
}

var overlayFiles = []string{"clusterhost.go", "api/rest/restapi.go"}

func loadProgram(repo string) (*Program, error) {
	p := &Program{repo: repo, byPath: map[string]*packages.Package{}, decls: map[*types.Func]*ast.FuncDecl{}, declPkg: map[*types.Func]*packages.Package{},
		globals: map[*types.Var]*globalInfo{}, mutatedGlobals: map[types.Object]bool{}, boxCache: map[ast.Node]map[types.Object]bool{},
		tmpInit: map[*Exec]map[string]Val{}, tmpGlobals: map[*Exec]map[string]Val{}, litVals: map[string]*ast.FuncLit{}, interior: map[string]*lval{},
		dropped: map[string]int{}, inlined: map[string]bool{}, usedContracts: map[string]bool{}, noContract: map[string]bool{}, replayPlans: map[string]*replayPlan{}}
	ov := map[string][]byte{}
	dropped := 0
	for _, f := range overlayFiles {
		path := filepath.Join(repo, f)
		data, err := os.ReadFile(path)
		if err != nil {
			return nil, err
		}
		var out [][]byte
		for _, l := range bytes.Split(data, []byte("\n")) {
			if bytes.Contains(l, []byte("libp2pquic")) {
				dropped++
				// keep line numbering stable
				out = append(out, []byte("// (line dropped by the quic overlay)"))
				continue
			}
			out = append(out, l)
		}
		ov[path] = bytes.Join(out, []byte("\n"))
	}
	p.overlayBytes = ov
	p.overlayNote = fmt.Sprintf("quic overlay: %d lines mentioning libp2pquic replaced by comments in %v", dropped, overlayFiles)
	p.fset = token.NewFileSet()
	cfg := &packages.Config{
		Mode:       packages.NeedName | packages.NeedFiles | packages.NeedSyntax | packages.NeedTypes | packages.NeedTypesInfo | packages.NeedImports | packages.NeedCompiledGoFiles | packages.NeedModule,
		Dir:        repo,
		Fset:       p.fset,
		BuildFlags: []string{"-tags=verif", "-mod=mod"},
		Overlay:    ov,
		Env:        append(os.Environ(), "GOFLAGS=-mod=mod", "GOPROXY=off", "GOSUMDB=off", "GOTOOLCHAIN=local"),
	}
	pkgs, err := packages.Load(cfg, "./...")
	if err != nil {
		return nil, err
	}
	for _, pk := range pkgs {
		if len(pk.Errors) > 0 {
			return nil, fmt.Errorf("package %s does not type-check: %v", pk.PkgPath, pk.Errors[0])
		}
		if pk.Module != nil && p.modPath == "" {
			p.modPath = pk.Module.Path
		}
		p.byPath[pk.PkgPath] = pk
	}
	sort.Slice(pkgs, func(i, j int) bool { return pkgs[i].PkgPath < pkgs[j].PkgPath })
	p.pkgs = pkgs
	// index declarations and globals
	for _, pk := range pkgs {
		for _, f := range pk.Syntax {
			for _, d := range f.Decls {
				switch d := d.(type) {
				case *ast.FuncDecl:
					if fn, ok := pk.TypesInfo.Defs[d.Name].(*types.Func); ok {
						p.decls[fn] = d
						p.declPkg[fn] = pk
					}
				case *ast.GenDecl:
					if d.Tok != token.VAR {
						continue
					}
					for _, s := range d.Specs {
						vs := s.(*ast.ValueSpec)
						for i, n := range vs.Names {
							v, ok := pk.TypesInfo.Defs[n].(*types.Var)
							if !ok {
								continue
							}
							gi := &globalInfo{}
							if len(vs.Values) == len(vs.Names) {
								gi.expr = vs.Values[i]
								if call, ok := vs.Values[i].(*ast.CallExpr); ok {
									if se, ok := call.Fun.(*ast.SelectorExpr); ok {
										if id, ok := se.X.(*ast.Ident); ok && (id.Name == "errors" && se.Sel.Name == "New" || id.Name == "fmt" && se.Sel.Name == "Errorf") {
											gi.isErrSentinel = true
											gi.expr = nil
										}
									}
								}
							}
							p.globals[v] = gi
						}
					}
				}
			}
		}
	}
	// which globals are ever assigned or have their address taken outside their declaration?
	for _, pk := range pkgs {
		for _, f := range pk.Syntax {
			ast.Inspect(f, func(n ast.Node) bool {
				mark := func(e ast.Expr) {
					for {
						switch ee := e.(type) {
						case *ast.ParenExpr:
							e = ee.X
							continue
						case *ast.IndexExpr:
							e = ee.X
							continue
						case *ast.SelectorExpr:
							if pk.TypesInfo.Selections[ee] != nil {
								e = ee.X
								continue
							}
							if o := pk.TypesInfo.Uses[ee.Sel]; o != nil {
								p.mutatedGlobals[o] = true
							}
							return
						case *ast.StarExpr:
							return
						case *ast.Ident:
							if o := pk.TypesInfo.Uses[ee]; o != nil {
								p.mutatedGlobals[o] = true
							}
							return
						default:
							return
						}
					}
				}
				switch s := n.(type) {
				case *ast.AssignStmt:
					if s.Tok != token.DEFINE {
						for _, l := range s.Lhs {
							mark(l)
						}
					}
				case *ast.IncDecStmt:
					mark(s.X)
				case *ast.UnaryExpr:
					if s.Op == token.AND {
						mark(s.X)
					}
				case *ast.CallExpr:
					if id, ok := s.Fun.(*ast.Ident); ok && id.Name == "delete" && len(s.Args) > 0 {
						mark(s.Args[0])
					}
				}
				return true
			})
		}
	}
	// contract files
	p.specs = newSpecs()
	for _, pk := range pkgs {
		if len(pk.GoFiles) == 0 {
			continue
		}
		dir := filepath.Dir(pk.GoFiles[0])
		matches, _ := filepath.Glob(filepath.Join(dir, "contracts*_verif.go"))
		sort.Strings(matches)
		for _, m := range matches {
			pkPath := pk.PkgPath
			if err := loadContractFile(m, pkPath, func(q string) string { return p.resolveQual(pkPath, q) }, p.specs); err != nil {
				return nil, err
			}
		}
	}
	return p, nil
}

func (p *Program) text(n ast.Node) string {
	var b bytes.Buffer
	format.Node(&b, p.fset, n)
	return b.String()
}

func (p *Program) funcDecl(fn *types.Func) *ast.FuncDecl {
	if d, ok := p.decls[fn]; ok {
		return d
	}
	if o := fn.Origin(); o != fn {
		return p.decls[o]
	}
	return nil
}

func (p *Program) pkgOf(tp *types.Package) *packages.Package {
	if tp == nil {
		return nil
	}
	return p.byPath[tp.Path()]
}

func (p *Program) globalInit(v *types.Var) *globalInfo {
	gi, ok := p.globals[v]
	if !ok {
		return nil
	}
	if p.mutatedGlobals[v] {
		return nil
	}
	if gi.expr == nil && !gi.isErrSentinel {
		return nil
	}
	return gi
}

// resolveQual maps an import name as used in package pkgPath's files to the import path.
func (p *Program) resolveQual(pkgPath, q string) string {
	pk := p.byPath[pkgPath]
	if pk == nil {
		return q
	}
	for _, f := range pk.Syntax {
		for _, im := range f.Imports {
			path := strings.Trim(im.Path.Value, "\"")
			name := ""
			if im.Name != nil {
				name = im.Name.Name
			} else if ip := pk.Imports[path]; ip != nil {
				name = ip.Name
			} else {
				name = filepath.Base(path)
			}
			if name == q {
				return path
			}
		}
	}
	// a well-known standard package name
	switch q {
	case "sort", "strings", "errors", "fmt", "time", "os", "context", "bytes", "strconv", "sync":
		return q
	}
	// any package of the module with that name
	for _, o := range p.pkgs {
		if o.Name == q {
			return o.PkgPath
		}
	}
	// a package imported under that name anywhere in the module (contracts may name types of
	// packages their own package does not import)
	for _, o := range p.pkgs {
		for _, f := range o.Syntax {
			for _, im := range f.Imports {
				path := strings.Trim(im.Path.Value, "\"")
				name := ""
				if im.Name != nil {
					name = im.Name.Name
				} else if ip := o.Imports[path]; ip != nil {
					name = ip.Name
				}
				if name == q {
					return path
				}
			}
		}
	}
	return q
}

func (p *Program) typesPkg(path string) *types.Package {
	if pk := p.byPath[path]; pk != nil {
		return pk.Types
	}
	for _, pk := range p.pkgs {
		if ip := pk.Imports[path]; ip != nil && ip.Types != nil {
			return ip.Types
		}
	}
	return nil
}

// resolveType parses a Go type expression as written in a contract of package pkgPath.
func (p *Program) resolveType(pkgPath, text string) types.Type {
	expr, err := parser.ParseExpr(text)
	if err != nil {
		return nil
	}
	return p.typeFromExpr(pkgPath, expr)
}

func (p *Program) typeFromExpr(pkgPath string, e ast.Expr) types.Type {
	switch e := e.(type) {
	case *ast.Ident:
		if o := types.Universe.Lookup(e.Name); o != nil {
			if tn, ok := o.(*types.TypeName); ok {
				return tn.Type()
			}
		}
		if pk := p.byPath[pkgPath]; pk != nil {
			if tn, ok := pk.Types.Scope().Lookup(e.Name).(*types.TypeName); ok {
				return tn.Type()
			}
		}
		// search all module packages (spec funcs are global)
		for _, pk := range p.pkgs {
			if tn, ok := pk.Types.Scope().Lookup(e.Name).(*types.TypeName); ok && tn.Exported() {
				return tn.Type()
			}
		}
		return nil
	case *ast.SelectorExpr:
		q, ok := e.X.(*ast.Ident)
		if !ok {
			return nil
		}
		path := p.resolveQual(pkgPath, q.Name)
		tp := p.typesPkg(path)
		if tp == nil {
			return nil
		}
		if tn, ok := tp.Scope().Lookup(e.Sel.Name).(*types.TypeName); ok {
			return tn.Type()
		}
		return nil
	case *ast.StarExpr:
		t := p.typeFromExpr(pkgPath, e.X)
		if t == nil {
			return nil
		}
		return types.NewPointer(t)
	case *ast.ArrayType:
		t := p.typeFromExpr(pkgPath, e.Elt)
		if t == nil {
			return nil
		}
		if e.Len == nil {
			return types.NewSlice(t)
		}
		return nil
	case *ast.MapType:
		k, v := p.typeFromExpr(pkgPath, e.Key), p.typeFromExpr(pkgPath, e.Value)
		if k == nil || v == nil {
			return nil
		}
		return types.NewMap(k, v)
	case *ast.ParenExpr:
		return p.typeFromExpr(pkgPath, e.X)
	}
	return nil
}

// specSort: sort of a type written in a contract. Returns (sort, set element sort or "", Go type or nil).
func (p *Program) specSort(vc *VC, pkgPath string, t *SType) (string, string, types.Type) {
	txt := strings.TrimSpace(t.Text)
	if strings.HasPrefix(txt, "set[") && strings.HasSuffix(txt, "]") {
		es, _, _ := p.specSort(vc, pkgPath, &SType{Text: txt[4 : len(txt)-1]})
		return fmt.Sprintf("(Array %s Bool)", es), es, nil
	}
	switch txt {
	case "int":
		return vc.intSort(), "", types.Typ[types.Int]
	case "bool":
		return "Bool", "", types.Typ[types.Bool]
	case "string":
		return "Str", "", types.Typ[types.String]
	case "mathint":
		return "Int", "", nil
	case "any":
		t := types.NewInterfaceType(nil, nil)
		return vc.sortOf(t), "", t
	}
	gt := p.resolveType(pkgPath, txt)
	if gt == nil {
		panic(unsupported("contract: unknown type " + txt))
	}
	return vc.sortOf(gt), "", gt
}

// autoInline: contract-less helpers small enough to be verified as part of their callers.
func (p *Program) autoInline(fn *types.Func, fd *ast.FuncDecl) bool {
	if fn.Pkg() == nil || !strings.HasPrefix(fn.Pkg().Path(), p.modPath) {
		return false
	}
	if fd.Body == nil || len(fd.Body.List) > 8 {
		return false
	}
	ok := true
	n := 0
	ast.Inspect(fd.Body, func(nd ast.Node) bool {
		switch nd.(type) {
		case *ast.ForStmt, *ast.RangeStmt, *ast.GoStmt, *ast.SelectStmt, *ast.DeferStmt, *ast.FuncLit:
			ok = false
		case ast.Stmt:
			n++
		}
		return ok
	})
	return ok && n <= 14
}

var pureLibPkgs = map[string]bool{
	"strings": true, "strconv": true, "bytes": true, "path": true, "path/filepath": true, "unicode": true, "unicode/utf8": true,
	"github.com/ipfs/go-cid": true, "github.com/libp2p/go-libp2p-core/peer": true, "github.com/multiformats/go-multiaddr": true,
	"github.com/multiformats/go-multihash": true, "math": true, "net/url": true, "encoding/hex": true, "encoding/base64": true,
	"github.com/ipfs/go-datastore": true, "github.com/ipfs/go-path": true, "net/textproto": true,
	"github.com/gorilla/mux": true, "github.com/libp2p/go-libp2p-core/host": true, "github.com/ipfs/go-ipfs-ds-help": true,
}

func (p *Program) isPureLib(fn *types.Func) bool {
	if fn.Pkg() == nil {
		return fn.Name() == "Error" // error.Error()
	}
	path := fn.Pkg().Path()
	sig := fn.Type().(*types.Signature)
	if path == "time" {
		switch fn.Name() {
		case "Now", "Sleep", "After", "NewTimer", "NewTicker", "Tick", "AfterFunc", "Reset", "Stop":
			return false
		}
		return true
	}
	if path == "fmt" {
		return fn.Name() == "Sprintf" || fn.Name() == "Sprint" || fn.Name() == "Sprintln"
	}
	if path == "errors" {
		return fn.Name() == "Is" || fn.Name() == "Unwrap"
	}
	if path == "net/http" {
		// request accessors are deterministic functions of the request
		if r := sig.Recv(); r != nil && strings.HasSuffix(r.Type().String(), "net/http.Request") {
			switch fn.Name() {
			case "BasicAuth", "Context", "FormValue", "UserAgent", "Referer", "Cookie", "Cookies":
				return true
			}
		}
		if r := sig.Recv(); r != nil && strings.HasSuffix(r.Type().String(), "net/http.Header") {
			return fn.Name() == "Get" || fn.Name() == "Values"
		}
		return false
	}
	if !pureLibPkgs[path] {
		return false
	}
	if path == "net/url" {
		// url.Values setters mutate
		switch fn.Name() {
		case "Set", "Add", "Del":
			return false
		}
	}
	// pointer receivers/params into library structs are fine (we do not model their heaps)
	_ = sig
	return true
}

// boxedIn: local variables of a function whose address is taken (or that are
// captured by reference in a way we must model through the heap).
func (p *Program) boxedIn(fd ast.Node) map[types.Object]bool {
	if m, ok := p.boxCache[fd]; ok {
		return m
	}
	m := map[types.Object]bool{}
	var info *types.Info
	for _, pk := range p.pkgs {
		for _, f := range pk.Syntax {
			if f.Pos() <= fd.Pos() && fd.End() <= f.End() {
				info = pk.TypesInfo
			}
		}
	}
	if info == nil {
		p.boxCache[fd] = m
		return m
	}
	isLocal := func(o types.Object) bool {
		v, ok := o.(*types.Var)
		return ok && !v.IsField() && v.Pkg() != nil && v.Parent() != v.Pkg().Scope()
	}
	ast.Inspect(fd, func(n ast.Node) bool {
		switch e := n.(type) {
		case *ast.UnaryExpr:
			if e.Op == token.AND {
				if id, ok := unparen(e.X).(*ast.Ident); ok {
					if o := info.Uses[id]; o != nil && isLocal(o) {
						m[o] = true
					}
				}
			}
		case *ast.SelectorExpr:
			// implicit &x for pointer-receiver method calls on addressable locals
			if sel := info.Selections[e]; sel != nil && sel.Kind() == types.MethodVal {
				if fn, ok := sel.Obj().(*types.Func); ok {
					recv := fn.Type().(*types.Signature).Recv()
					if recv != nil {
						if _, wantPtr := recv.Type().(*types.Pointer); wantPtr {
							if id, ok := unparen(e.X).(*ast.Ident); ok {
								if o := info.Uses[id]; o != nil && isLocal(o) {
									if _, isPtr := o.Type().Underlying().(*types.Pointer); !isPtr {
										// sync primitives are modelled as values
										ts := o.Type().String()
										if !strings.HasPrefix(ts, "sync.") {
											m[o] = true
										}
									}
								}
							}
						}
					}
				}
			}
		}
		return true
	})
	p.boxCache[fd] = m
	return m
}

func (p *Program) isBoxed(fd ast.Node, obj types.Object) bool { return p.boxedIn(fd)[obj] }
