package main

// specparse.go: lexer and Pratt parser for contract expressions
// (Go expression syntax plus ==>, <==>, forall/exists, old(), spec calls).

import (
	"fmt"
	"strings"
)

type tok struct {
	kind string // id, int, str, op, eof
	text string
	pos  int
}

func lexSpec(s string) ([]tok, error) {
	var toks []tok
	i := 0
	ops := []string{"<==>", "==>", "&&", "||", "==", "!=", "<=", ">=", "<<", ">>", "&^", "::", "(", ")", "[", "]", "{", "}", ",", ".", ":", "+", "-", "*", "/", "%", "&", "|", "^", "<", ">", "!", "="}
	for i < len(s) {
		c := s[i]
		switch {
		case c == ' ' || c == '\t' || c == '\n' || c == '\r':
			i++
		case c == '/' && i+1 < len(s) && s[i+1] == '/':
			// comment to end of line
			for i < len(s) && s[i] != '\n' {
				i++
			}
		case c >= '0' && c <= '9':
			j := i
			for j < len(s) && (s[j] >= '0' && s[j] <= '9' || s[j] == 'x' || s[j] >= 'a' && s[j] <= 'f' || s[j] >= 'A' && s[j] <= 'F' || s[j] == '_') {
				j++
			}
			toks = append(toks, tok{"int", s[i:j], i})
			i = j
		case c == '"':
			j := i + 1
			for j < len(s) && s[j] != '"' {
				if s[j] == '\\' {
					j++
				}
				j++
			}
			if j >= len(s) {
				return nil, fmt.Errorf("unterminated string at %d", i)
			}
			toks = append(toks, tok{"str", s[i+1 : j], i})
			i = j + 1
		case c == '_' || c == '$' || c >= 'a' && c <= 'z' || c >= 'A' && c <= 'Z':
			j := i
			for j < len(s) && (s[j] == '_' || s[j] == '$' || s[j] >= 'a' && s[j] <= 'z' || s[j] >= 'A' && s[j] <= 'Z' || s[j] >= '0' && s[j] <= '9') {
				j++
			}
			toks = append(toks, tok{"id", s[i:j], i})
			i = j
		default:
			matched := false
			for _, op := range ops {
				if strings.HasPrefix(s[i:], op) {
					toks = append(toks, tok{"op", op, i})
					i += len(op)
					matched = true
					break
				}
			}
			if !matched {
				return nil, fmt.Errorf("unexpected character %q at %d in %q", c, i, s)
			}
		}
	}
	toks = append(toks, tok{"eof", "", len(s)})
	return toks, nil
}

// SExpr is the spec AST.
type SExpr struct {
	Op   string   // id, int, str, bin, un, call, sel, index, slice, quant, paren
	Name string   // identifier / operator / field / quantifier kind
	Args []*SExpr // operands
	Binders []binder
	Src  string
}

type binder struct {
	Name string
	Type *SType
}

// SType: a type as written in a contract
type SType struct {
	Text string // Go type text, or set[T] / seq[T]
}

type sparser struct {
	toks []tok
	p    int
	src  string
}

func parseSpecExpr(s string) (e *SExpr, err error) {
	defer func() {
		if r := recover(); r != nil {
			if pe, ok := r.(parseErr); ok {
				err = fmt.Errorf("%s in %q", string(pe), s)
				return
			}
			panic(r)
		}
	}()
	toks, err := lexSpec(s)
	if err != nil {
		return nil, err
	}
	ps := &sparser{toks: toks, src: s}
	e = ps.expr()
	if ps.peek().kind != "eof" {
		return nil, fmt.Errorf("trailing input at %q in %q", ps.peek().text, s)
	}
	e.Src = s
	return e, nil
}

type parseErr string

func (ps *sparser) peek() tok { return ps.toks[ps.p] }
func (ps *sparser) next() tok { t := ps.toks[ps.p]; ps.p++; return t }
func (ps *sparser) isOp(s string) bool {
	t := ps.peek()
	return t.kind == "op" && t.text == s
}
func (ps *sparser) expect(s string) {
	if !ps.isOp(s) {
		panic(parseErr(fmt.Sprintf("expected %q got %q", s, ps.peek().text)))
	}
	ps.p++
}

func (ps *sparser) expr() *SExpr { return ps.implies() }

func (ps *sparser) implies() *SExpr {
	l := ps.iff()
	if ps.isOp("==>") {
		ps.next()
		r := ps.implies()
		return &SExpr{Op: "bin", Name: "==>", Args: []*SExpr{l, r}}
	}
	return l
}

func (ps *sparser) iff() *SExpr {
	l := ps.binary(0)
	for ps.isOp("<==>") {
		ps.next()
		r := ps.binary(0)
		l = &SExpr{Op: "bin", Name: "<==>", Args: []*SExpr{l, r}}
	}
	return l
}

var precs = []map[string]bool{
	{"||": true},
	{"&&": true},
	{"==": true, "!=": true, "<": true, "<=": true, ">": true, ">=": true},
	{"+": true, "-": true, "|": true, "^": true},
	{"*": true, "/": true, "%": true, "&": true, "<<": true, ">>": true, "&^": true},
}

func (ps *sparser) binary(level int) *SExpr {
	if level >= len(precs) {
		return ps.unary()
	}
	l := ps.binary(level + 1)
	for {
		t := ps.peek()
		if t.kind == "op" && precs[level][t.text] {
			ps.next()
			r := ps.binary(level + 1)
			l = &SExpr{Op: "bin", Name: t.text, Args: []*SExpr{l, r}}
			continue
		}
		return l
	}
}

func (ps *sparser) unary() *SExpr {
	t := ps.peek()
	if t.kind == "op" && (t.text == "!" || t.text == "-" || t.text == "*" || t.text == "&") {
		ps.next()
		x := ps.unary()
		return &SExpr{Op: "un", Name: t.text, Args: []*SExpr{x}}
	}
	return ps.postfix()
}

func (ps *sparser) postfix() *SExpr {
	x := ps.primary()
	for {
		switch {
		case ps.isOp("."):
			ps.next()
			id := ps.next()
			if id.kind != "id" {
				panic(parseErr("expected field name after ."))
			}
			x = &SExpr{Op: "sel", Name: id.text, Args: []*SExpr{x}}
		case ps.isOp("["):
			ps.next()
			var lo, hi *SExpr
			if !ps.isOp(":") {
				lo = ps.expr()
			}
			if ps.isOp(":") {
				ps.next()
				if !ps.isOp("]") {
					hi = ps.expr()
				}
				ps.expect("]")
				x = &SExpr{Op: "slice", Args: []*SExpr{x, lo, hi}}
			} else {
				ps.expect("]")
				x = &SExpr{Op: "index", Args: []*SExpr{x, lo}}
			}
		case ps.isOp("("):
			ps.next()
			var args []*SExpr
			for !ps.isOp(")") {
				args = append(args, ps.expr())
				if ps.isOp(",") {
					ps.next()
				}
			}
			ps.expect(")")
			x = &SExpr{Op: "call", Args: append([]*SExpr{x}, args...)}
		default:
			return x
		}
	}
}

func (ps *sparser) primary() *SExpr {
	t := ps.next()
	switch t.kind {
	case "int":
		return &SExpr{Op: "int", Name: strings.ReplaceAll(t.text, "_", "")}
	case "str":
		return &SExpr{Op: "str", Name: t.text}
	case "id":
		if t.text == "forall" || t.text == "exists" {
			var bs []binder
			for {
				id := ps.next()
				if id.kind != "id" {
					panic(parseErr("expected binder name"))
				}
				ty := ps.typ()
				bs = append(bs, binder{id.text, ty})
				if ps.isOp(",") {
					ps.next()
					continue
				}
				break
			}
			ps.expect("::")
			body := ps.expr()
			return &SExpr{Op: "quant", Name: t.text, Binders: bs, Args: []*SExpr{body}}
		}
		return &SExpr{Op: "id", Name: t.text}
	case "op":
		if t.text == "(" {
			x := ps.expr()
			ps.expect(")")
			return &SExpr{Op: "paren", Args: []*SExpr{x}}
		}
	}
	panic(parseErr(fmt.Sprintf("unexpected token %q", t.text)))
}

// typ parses a type: [*]name[.name] | []T | map[K]V | set[T]
func (ps *sparser) typ() *SType {
	start := ps.peek().pos
	ps.skipType()
	end := ps.peek().pos
	return &SType{Text: strings.TrimSpace(ps.src[start:end])}
}

func (ps *sparser) skipType() {
	t := ps.next()
	switch {
	case t.kind == "op" && t.text == "*":
		ps.skipType()
	case t.kind == "op" && t.text == "[":
		ps.expect("]")
		ps.skipType()
	case t.kind == "id" && (t.text == "map" || t.text == "set" || t.text == "seq"):
		ps.expect("[")
		ps.skipType()
		ps.expect("]")
		if t.text == "map" {
			ps.skipType()
		}
	case t.kind == "id":
		if ps.isOp(".") {
			ps.next()
			ps.next()
		}
	default:
		panic(parseErr("bad type at " + t.text))
	}
}

func parseSpecType(s string) (*SType, error) {
	return &SType{Text: strings.TrimSpace(s)}, nil
}
