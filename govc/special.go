package main

// special.go: lemmas and non-WP obligations (tables, codec type obligations).

type specialItem struct {
	vc *VC
	o  *Obl
}

func (p *Program) specialObligations(prop string) ([]specialItem, []*FuncReport) {
	var items []specialItem
	var reps []*FuncReport
	li, lr := p.lemmaObligations(prop)
	items = append(items, li...)
	reps = append(reps, lr...)
	return items, reps
}

func (p *Program) lemmaObligations(prop string) ([]specialItem, []*FuncReport) {
	return nil, nil
}
