package main

// special.go: lemmas (spec-level facts about package-level tables) and
// generated obligations that are not weakest preconditions of a body:
// "every registered RPC method has a policy entry" (C07), codec type obligations (C08).

import (
	"reflect"
	"fmt"
	"go/ast"
	"go/token"
	"go/types"
	"sort"
	"strings"
)

type specialItem struct {
	vc *VC
	o  *Obl
}

func (p *Program) specialObligations(prop string) ([]specialItem, []*FuncReport) {
	var items []specialItem
	var reps []*FuncReport
	li, lr := p.lemmaObligations(prop)
	items = append(items, li...)
	reps = append(reps, lr...)
	di, dr := p.directiveObligations(prop)
	items = append(items, di...)
	reps = append(reps, dr...)
	return items, reps
}

func hasProp(props []string, id string) bool {
	for _, p := range props {
		if p == id {
			return true
		}
	}
	return false
}

// newSpecExec: an executor with an empty state, for evaluating spec expressions over package-level data.
func (p *Program) newSpecExec(pkgPath, name string, bv bool) (*Exec, *State) {
	vc := newVC(bv)
	pk := p.byPath[pkgPath]
	x := &Exec{prog: p, vc: vc, pkg: pk, fname: name, counts: map[string]int{}, boxed: map[types.Object]bool{}, aliases: map[types.Object]*lval{}}
	st := &State{pc: "true", vars: map[types.Object]Val{}, heap: map[string]Val{}}
	x.old = st.clone()
	return x, st
}

func (p *Program) lemmaObligations(prop string) (items []specialItem, reps []*FuncReport) {
	for _, l := range p.specs.Lemmas {
		if l.Axiom || !hasProp(l.Props, prop) {
			continue
		}
		pk := p.byPath[l.PkgPath]
		name := pk.Name + ".lemma." + l.Name
		rep := &FuncReport{Name: name, Key: l.PkgPath + ".lemma." + l.Name, Kind: "lemma", File: strings.TrimPrefix(l.File, p.repo+"/"), Line: l.Line, Mode: "mathematical integers"}
		func() {
			defer func() {
				if r := recover(); r != nil {
					if u, ok := r.(unsupportedErr); ok {
						rep.Undecided = u.msg
						return
					}
					panic(r)
				}
			}()
			x, st := p.newSpecExec(l.PkgPath, name, l.Opts["bv"])
			if x.vc.bv {
				rep.Mode = "64-bit bit-vectors"
			}
			env := x.specEnv(st, st, nil, l.PkgPath)
			body := stripParen(l.Expr)
			// a top-level universal quantifier is skolemised (fresh constants), and the hypotheses of a
			// top-level implication become path facts, so that each conjunct of the conclusion is its own obligation
			if body.Op == "quant" && body.Name == "forall" {
				for _, b := range body.Binders {
					srt, elem, got := p.specSort(x.vc, l.PkgPath, b.Type)
					if elem != "" {
						panic(unsupported("contract: set-typed binder"))
					}
					c := Val{T: x.vc.fresh("sk_"+b.Name, srt), Sort: srt, GoT: got}
					env.names[b.Name] = c
					if got != nil && isInteger(got) && isUnsigned(got) {
						x.assume(st, x.vc.cmp(">=", c.T, x.vc.intLit(0), true))
					}
				}
				body = stripParen(body.Args[0])
				if body.Op == "bin" && body.Name == "==>" {
					for _, h := range p.expandConj(body.Args[0], 0) {
						x.assume(st, env.boolean(h))
					}
					body = body.Args[1]
				}
			}
			if st.pc != "true" {
				o := &Obl{Name: name + "#vacuity", Class: "vacuity", PC: st.pc, Goal: "false", Func: name, Vacuity: true, Desc: "the hypotheses of the lemma are satisfiable", Pos: token.Position{Filename: l.File, Line: l.Line}}
				x.vc.addObl(o)
				items = append(items, specialItem{x.vc, o})
				rep.NObl++
			}
			conj := p.expandConj(body, 0)
			for j, cj := range conj {
				g := env.boolean(cj)
				on := name + "#lemma"
				if len(conj) > 1 {
					on += fmt.Sprintf(".%d", j+1)
				}
				o := &Obl{Name: on, Class: "lemma", PC: st.pc, Goal: g, Desc: exprText(cj), Func: name, Pos: token.Position{Filename: l.File, Line: l.Line}}
				x.vc.addObl(o)
				items = append(items, specialItem{x.vc, o})
				rep.NObl++
			}
			for n := range x.vc.notes {
				rep.Dropped = append(rep.Dropped, n)
			}
			delete(p.tmpInit, x)
			delete(p.tmpGlobals, x)
		}()
		if rep.Undecided != "" {
			fmt.Printf("UNDECIDED property=%s lemma=%s reason=%s\n", prop, name, rep.Undecided)
		}
		reps = append(reps, rep)
	}
	return
}

func (p *Program) directiveObligations(prop string) (items []specialItem, reps []*FuncReport) {
	for _, d := range p.specs.Directives {
		if !hasProp(d.Props, prop) {
			continue
		}
		switch d.Kind {
		case "rpc_methods_in_policy":
			it, rp := p.rpcMethodsInPolicy(d)
			items = append(items, it...)
			reps = append(reps, rp)
		case "codec":
			it, rp := p.codecObligations(d)
			items = append(items, it...)
			reps = append(reps, rp)
		case "route_handlers":
			it, rp := p.routeHandlerObligations(d)
			items = append(items, it...)
			reps = append(reps, rp)
		default:
			fmt.Printf("UNDECIDED property=%s directive=%s reason=unknown directive\n", prop, d.Kind)
		}
	}
	return
}

// rpcMethodsInPolicy: directive rpc_methods_in_policy <registerFunc> <policyVar>
// Enumerates (go/types) every exported method of every type registered with RegisterName in
// <registerFunc> and generates one obligation per method: the policy table has an entry for
// "<Service>.<Method>", where <Service> is the type name without the RPCAPI suffix
// (the naming convention RPCServiceID implements).
func (p *Program) rpcMethodsInPolicy(d *Directive) (items []specialItem, rep *FuncReport) {
	pk := p.byPath[d.PkgPath]
	args := strings.Fields(d.Args)
	name := pk.Name + ".directive.rpc_methods_in_policy"
	rep = &FuncReport{Name: name, Key: d.PkgPath + ".directive.rpc_methods_in_policy", Kind: "directive", File: strings.TrimPrefix(d.File, p.repo+"/"), Line: d.Line, Mode: "finite enumeration (complete)"}
	if len(args) != 2 {
		rep.Undecided = "usage: directive rpc_methods_in_policy <func> <policy var>"
		return
	}
	var decl *ast.FuncDecl
	for fn, fd := range p.decls {
		if p.declPkg[fn] == pk && fn.Name() == args[0] {
			decl = fd
		}
	}
	if decl == nil {
		rep.Undecided = "function " + args[0] + " not found"
		return
	}
	var methods []string
	seen := map[string]bool{}
	ast.Inspect(decl, func(n ast.Node) bool {
		call, ok := n.(*ast.CallExpr)
		if !ok {
			return true
		}
		sel, ok := call.Fun.(*ast.SelectorExpr)
		if !ok || sel.Sel.Name != "RegisterName" || len(call.Args) != 2 {
			return true
		}
		t := pk.TypesInfo.TypeOf(call.Args[1])
		pt, ok := t.(*types.Pointer)
		if !ok {
			return true
		}
		nt, ok := pt.Elem().(*types.Named)
		if !ok {
			return true
		}
		svc := strings.TrimSuffix(nt.Obj().Name(), "RPCAPI")
		ms := types.NewMethodSet(t)
		for i := 0; i < ms.Len(); i++ {
			m := ms.At(i).Obj()
			if !m.Exported() {
				continue
			}
			k := svc + "." + m.Name()
			if !seen[k] {
				seen[k] = true
				methods = append(methods, k)
			}
		}
		return true
	})
	sort.Strings(methods)
	if len(methods) == 0 {
		rep.Undecided = "no RegisterName calls found in " + args[0]
		return
	}
	defer func() {
		if r := recover(); r != nil {
			if u, ok := r.(unsupportedErr); ok {
				rep.Undecided = u.msg
				items = nil
				return
			}
			panic(r)
		}
	}()
	x, st := p.newSpecExec(d.PkgPath, name, false)
	env := x.specEnv(st, st, nil, d.PkgPath)
	for _, m := range methods {
		e, err := parseSpecExpr(fmt.Sprintf("haskey(%s, %q)", args[1], m))
		if err != nil {
			panic(unsupported(err.Error()))
		}
		o := &Obl{Name: fmt.Sprintf("%s#entry(%s)", name, m), Class: "table", PC: st.pc, Goal: env.boolean(e), Desc: "registered RPC method " + m + " has an entry in " + args[1], Func: name, Pos: token.Position{Filename: d.File, Line: d.Line}}
		x.vc.addObl(o)
		items = append(items, specialItem{x.vc, o})
		rep.NObl++
	}
	rep.Dropped = append(rep.Dropped, fmt.Sprintf("%d registered methods enumerated from go/types", len(methods)))
	delete(p.tmpInit, x)
	delete(p.tmpGlobals, x)
	return
}

// codecObligations: directive codec <Type> ...
// For each named struct type of the package, one obligation per field (recursively through embedded and nested
// structs of the module): the field's static type is one the reflection-based codecs (msgpack via ugorji/codec,
// encoding/json) can DECODE INTO from its own encoded form: basic kinds, strings, byte strings, time.Time, types that
// bring their own Binary/Text/JSON unmarshalers, and pointers/slices/maps/arrays/structs of such. A field whose
// static type is a (non-empty) interface cannot be decoded into: the decoder has no concrete type to allocate.
func (p *Program) codecObligations(d *Directive) (items []specialItem, rep *FuncReport) {
	pk := p.byPath[d.PkgPath]
	name := pk.Name + ".directive.codec"
	rep = &FuncReport{Name: name, Key: d.PkgPath + ".directive.codec", Kind: "directive", File: strings.TrimPrefix(d.File, p.repo+"/"), Line: d.Line, Mode: "finite enumeration over go/types (complete)"}
	x, st := p.newSpecExec(d.PkgPath, name, false)
	var unmarshalers []*types.Interface
	for _, q := range [][2]string{{"encoding", "BinaryUnmarshaler"}, {"encoding", "TextUnmarshaler"}, {"encoding/json", "Unmarshaler"}} {
		if tp := p.typesPkg(q[0]); tp != nil {
			if tn, ok := tp.Scope().Lookup(q[1]).(*types.TypeName); ok {
				if it, ok := tn.Type().Underlying().(*types.Interface); ok {
					unmarshalers = append(unmarshalers, it)
				}
			}
		}
	}
	selfDecoding := func(t types.Type) bool {
		if _, isI := t.Underlying().(*types.Interface); isI {
			return false // methods in the interface's method set do not help: there is no value to call them on
		}
		for _, it := range unmarshalers {
			if types.Implements(t, it) || types.Implements(types.NewPointer(t), it) {
				return true
			}
		}
		return false
	}
	var why string
	var decodable func(t types.Type, depth int, seen map[types.Type]bool) bool
	decodable = func(t types.Type, depth int, seen map[types.Type]bool) bool {
		if depth > 12 || seen[t] {
			return true
		}
		if selfDecoding(t) {
			return true
		}
		if n, ok := t.(*types.Named); ok && n.Obj().Pkg() != nil && n.Obj().Pkg().Path() == "time" && n.Obj().Name() == "Time" {
			return true
		}
		seen[t] = true
		defer delete(seen, t)
		switch u := t.Underlying().(type) {
		case *types.Basic:
			return true
		case *types.Pointer:
			return decodable(u.Elem(), depth+1, seen)
		case *types.Slice:
			return decodable(u.Elem(), depth+1, seen)
		case *types.Array:
			return decodable(u.Elem(), depth+1, seen)
		case *types.Map:
			return decodable(u.Key(), depth+1, seen) && decodable(u.Elem(), depth+1, seen)
		case *types.Struct:
			for i := 0; i < u.NumFields(); i++ {
				f := u.Field(i)
				if !f.Exported() {
					continue
				}
				if !decodable(f.Type(), depth+1, seen) {
					return false
				}
			}
			return true
		case *types.Interface:
			if u.NumMethods() == 0 {
				return true // interface{}: decoded as a generic value
			}
			why = "static type " + types.TypeString(t, nil) + " is an interface: the decoder has no concrete type to decode into"
			return false
		default:
			why = "values of type " + types.TypeString(t, nil) + " cannot be decoded"
			return false
		}
	}
	var walk func(prefix string, t types.Type, depth int)
	walk = func(prefix string, t types.Type, depth int) {
		stt, ok := t.Underlying().(*types.Struct)
		if !ok || depth > 4 {
			return
		}
		for i := 0; i < stt.NumFields(); i++ {
			f := stt.Field(i)
			if !f.Exported() {
				continue
			}
			path := prefix + "." + f.Name()
			ft := f.Type()
			// descend into nested structs of this module that do not decode themselves (one obligation per leaf)
			if n, ok := ft.(*types.Named); ok && n.Obj().Pkg() != nil && strings.HasPrefix(n.Obj().Pkg().Path(), p.modPath) && !selfDecoding(ft) {
				if _, isS := ft.Underlying().(*types.Struct); isS {
					walk(path, ft, depth+1)
					continue
				}
			}
			why = ""
			ok := decodable(ft, 0, map[types.Type]bool{})
			goal, desc := "true", "field "+path+" ("+types.TypeString(ft, func(p *types.Package) string { return p.Name() })+") can be decoded from its encoded form"
			if !ok {
				goal = "false"
				desc += ": " + why
			}
			o := &Obl{Name: fmt.Sprintf("%s#decodable(%s)", name, path), Class: "codec-type", PC: st.pc, Goal: goal, Desc: desc, Func: name, Pos: token.Position{Filename: d.File, Line: d.Line}}
			x.vc.addObl(o)
			items = append(items, specialItem{x.vc, o})
			rep.NObl++
		}
	}
	// encoded names: within one record (embedded structs flattened, as both encoders do) no two fields may carry the
	// same name in a format - the encoders keep one of them and silently never write the other
	flatNames := func(t types.Type, key string) (names []string, fields []string) {
		var rec func(t types.Type, prefix string, depth int)
		rec = func(t types.Type, prefix string, depth int) {
			stt, ok := t.Underlying().(*types.Struct)
			if !ok || depth > 4 {
				return
			}
			for i := 0; i < stt.NumFields(); i++ {
				f := stt.Field(i)
				tag := reflect.StructTag(stt.Tag(i)).Get(key)
				tname := strings.Split(tag, ",")[0]
				if tname == "-" {
					continue
				}
				if f.Embedded() && tname == "" {
					ft := f.Type()
					if pt, isP := ft.Underlying().(*types.Pointer); isP {
						ft = pt.Elem()
					}
					if _, isS := ft.Underlying().(*types.Struct); isS && !selfDecoding(f.Type()) {
						rec(ft, prefix+f.Name()+".", depth+1)
						continue
					}
				}
				if !f.Exported() {
					continue
				}
				if tname == "" {
					tname = f.Name()
				}
				names = append(names, tname)
				fields = append(fields, prefix+f.Name())
			}
		}
		rec(t, "", 0)
		return
	}
	seenRec := map[string]bool{}
	var checkNames func(label string, t types.Type, depth int)
	checkNames = func(label string, t types.Type, depth int) {
		stt, ok := t.Underlying().(*types.Struct)
		if !ok || depth > 4 || seenRec[types.TypeString(t, nil)] {
			return
		}
		seenRec[types.TypeString(t, nil)] = true
		for _, key := range []string{"codec", "json"} {
			names, fields := flatNames(t, key)
			goal, desc := "true", "record "+label+": the "+key+" names of its fields (embedded records flattened) are distinct"
			first := map[string]string{}
			for i, n := range names {
				if prev, dup := first[n]; dup {
					goal = "false"
					desc += ": " + prev + " and " + fields[i] + " are both encoded as \"" + n + "\" (one of them is never written)"
					break
				}
				first[n] = fields[i]
			}
			o := &Obl{Name: fmt.Sprintf("%s#distinct-names(%s,%s)", name, label, key), Class: "codec-type", PC: st.pc, Goal: goal, Desc: desc, Func: name, Pos: token.Position{Filename: d.File, Line: d.Line}}
			x.vc.addObl(o)
			items = append(items, specialItem{x.vc, o})
			rep.NObl++
		}
		for i := 0; i < stt.NumFields(); i++ {
			ft := stt.Field(i).Type()
			for {
				switch u := ft.Underlying().(type) {
				case *types.Pointer:
					ft = u.Elem()
					continue
				case *types.Slice:
					ft = u.Elem()
					continue
				case *types.Map:
					ft = u.Elem()
					continue
				}
				break
			}
			if n, ok := ft.(*types.Named); ok && n.Obj().Pkg() != nil && strings.HasPrefix(n.Obj().Pkg().Path(), p.modPath) && !selfDecoding(ft) {
				checkNames(n.Obj().Name(), ft, depth+1)
			}
		}
	}
	for _, tn := range strings.Fields(d.Args) {
		obj, ok := pk.Types.Scope().Lookup(tn).(*types.TypeName)
		if !ok {
			rep.Undecided = "codec: unknown type " + tn
			return nil, rep
		}
		walk(tn, obj.Type(), 0)
		checkNames(tn, obj.Type(), 0)
	}
	rep.Dropped = append(rep.Dropped, "omitempty and custom (Un)Marshal method bodies are not interpreted: the decodability of each field's static type and the distinctness of the encoded field names are decided")
	delete(p.tmpInit, x)
	delete(p.tmpGlobals, x)
	return
}

// routeHandlerObligations: directive route_handlers <func> <path>=<handler expression> ...
// Enumerates the gorilla/mux registrations `<router>.Path("<path>")...HandlerFunc(<expr>)` in <func> and generates one
// obligation per listed path (it is registered with exactly the handler expression the table names; spaces
// ignored) and one per registration found (its path is in the table): the route table against its specification.
func (p *Program) routeHandlerObligations(d *Directive) (items []specialItem, rep *FuncReport) {
	pk := p.byPath[d.PkgPath]
	args := strings.Fields(d.Args)
	name := pk.Name + ".directive.route_handlers"
	rep = &FuncReport{Name: name, Key: d.PkgPath + ".directive.route_handlers", Kind: "directive", File: strings.TrimPrefix(d.File, p.repo+"/"), Line: d.Line, Mode: "finite enumeration over the AST (complete)"}
	if len(args) < 2 {
		rep.Undecided = "usage: directive route_handlers <func> <path>=<handler> ..."
		return
	}
	var decl *ast.FuncDecl
	for fn, fd := range p.decls {
		if p.declPkg[fn] == pk && fn.Name() == args[0] {
			decl = fd
		}
	}
	if decl == nil || decl.Body == nil {
		rep.Undecided = "route_handlers: no function " + args[0]
		return
	}
	want := map[string]string{}
	var order []string
	for _, a := range args[1:] {
		k := strings.Index(a, "=")
		if k <= 0 {
			rep.Undecided = "route_handlers: bad entry " + a
			return
		}
		want[a[:k]] = a[k+1:]
		order = append(order, a[:k])
	}
	squash := func(s string) string { return strings.Join(strings.Fields(s), "") }
	found := map[string][]string{}
	ast.Inspect(decl.Body, func(n ast.Node) bool {
		call, ok := n.(*ast.CallExpr)
		if !ok {
			return true
		}
		sel, ok := call.Fun.(*ast.SelectorExpr)
		if !ok || sel.Sel.Name != "HandlerFunc" || len(call.Args) != 1 {
			return true
		}
		// walk the receiver chain for .Path("<lit>")
		path := ""
		methods := ""
		cur := sel.X
		for cur != nil {
			c, ok := unparen(cur).(*ast.CallExpr)
			if !ok {
				break
			}
			cs, ok := c.Fun.(*ast.SelectorExpr)
			if !ok {
				break
			}
			if cs.Sel.Name == "Path" && len(c.Args) == 1 {
				if bl, ok := c.Args[0].(*ast.BasicLit); ok {
					path = strings.Trim(bl.Value, "\"`")
				}
			}
			if cs.Sel.Name == "Methods" {
				// a per-route method restriction is part of what the route matches: it belongs to the key
				var ms []string
				for _, a := range c.Args {
					ms = append(ms, squash(p.text(a)))
				}
				methods = strings.Join(ms, ",") + ":"
			}
			cur = cs.X
		}
		if path != "" {
			found[methods+path] = append(found[methods+path], squash(p.text(call.Args[0])))
		}
		return true
	})
	// second form: a table of positional route literals {name, method, pattern, handler}: key METHOD:pattern
	ast.Inspect(decl.Body, func(n ast.Node) bool {
		cl, ok := n.(*ast.CompositeLit)
		if !ok || len(cl.Elts) != 4 {
			return true
		}
		m, ok1 := cl.Elts[1].(*ast.BasicLit)
		pt, ok2 := cl.Elts[2].(*ast.BasicLit)
		if !ok1 || !ok2 || m.Kind != token.STRING || pt.Kind != token.STRING {
			return true
		}
		key := strings.Trim(m.Value, "\"`") + ":" + strings.Trim(pt.Value, "\"`")
		found[key] = append(found[key], squash(p.text(cl.Elts[3])))
		return true
	})
	x, st := p.newSpecExec(d.PkgPath, name, false)
	add := func(on, desc string, ok bool) {
		goal := "true"
		if !ok {
			goal = "false"
		}
		o := &Obl{Name: name + "#" + on, Class: "table", PC: st.pc, Goal: goal, Desc: desc, Func: name, Pos: token.Position{Filename: d.File, Line: d.Line}}
		x.vc.addObl(o)
		items = append(items, specialItem{x.vc, o})
		rep.NObl++
	}
	for _, path := range order {
		hs := found[path]
		ok := len(hs) == 1 && hs[0] == squash(want[path])
		got := "not registered"
		if len(hs) > 0 {
			got = strings.Join(hs, ", ")
		}
		add("route("+path+")", "route "+path+" is answered by "+want[path]+" (registered: "+got+")", ok)
	}
	var paths []string
	for path := range found {
		paths = append(paths, path)
	}
	sort.Strings(paths)
	for _, path := range paths {
		_, ok := want[path]
		add("hijacked("+path+")", "the hijacked route "+path+" is one the specification lists", ok)
	}
	rep.Dropped = append(rep.Dropped, fmt.Sprintf("%d registrations enumerated from the AST of %s; the router's own matching (methods, prefixes) is the library's", len(paths), args[0]))
	delete(p.tmpInit, x)
	delete(p.tmpGlobals, x)
	return
}
