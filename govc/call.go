package main

// call.go: calls — builtins, conversions, dropped calls, contract application,
// inlining, pure library functions, and conservative havoc for the rest.

import (
	"fmt"
	"go/ast"
	"go/token"
	"go/types"
	"strings"
)

// calls dropped mechanically (DESIGN §2.3): logging, tracing, metrics, wait groups
func (x *Exec) isDroppedCall(call *ast.CallExpr) bool {
	sel, ok := call.Fun.(*ast.SelectorExpr)
	if !ok {
		if id, ok := call.Fun.(*ast.Ident); ok {
			if id.Name == "cancel" || id.Name == "cancelF" {
				if _, isSig := x.typeOf(id).Underlying().(*types.Signature); isSig {
					return true
				}
			}
			if t := x.typeOf(id); t != nil && types.TypeString(t, nil) == "context.CancelFunc" {
				return true
			}
		}
		return false
	}
	if sel.Sel.Name == "cancel" || sel.Sel.Name == "cancelF" {
		if x.selOf(sel) != nil && x.selOf(sel).Kind() == types.FieldVal {
			return true // context cancel function stored in a field
		}
	}
	if id, ok := sel.X.(*ast.Ident); ok {
		switch id.Name {
		case "logger", "log", "trace", "stats", "tag", "span", "wg", "lggr":
			if id.Name == "trace" && (sel.Sel.Name == "StartSpan" || sel.Sel.Name == "NewContext") {
				return false // results are used; handled as opaque
			}
			return true
		}
	}
	if fn := x.calleeFunc(call); fn != nil && fn.Pkg() != nil {
		switch fn.Pkg().Path() {
		case "go.opencensus.io/trace", "go.opencensus.io/stats", "go.opencensus.io/tag", "github.com/ipfs/go-log/v2", "go.uber.org/zap":
			if fn.Name() == "StartSpan" || fn.Name() == "NewContext" || fn.Name() == "New" {
				return false
			}
			return true
		}
		if fn.Pkg().Path() == "sync" {
			if recv := fn.Type().(*types.Signature).Recv(); recv != nil && strings.Contains(recv.Type().String(), "WaitGroup") {
				return true
			}
		}
		if fn.Pkg().Path() == "time" && fn.Name() == "Sleep" {
			return true
		}
	}
	return false
}

func (x *Exec) calleeFunc(call *ast.CallExpr) *types.Func {
	switch f := call.Fun.(type) {
	case *ast.Ident:
		if fn, ok := x.objOf(f).(*types.Func); ok {
			return fn
		}
	case *ast.SelectorExpr:
		if sel := x.selOf(f); sel != nil {
			if fn, ok := sel.Obj().(*types.Func); ok {
				return fn
			}
			return nil
		}
		if fn, ok := x.objOf(f.Sel).(*types.Func); ok {
			return fn
		}
	case *ast.ParenExpr:
		return x.calleeFunc(&ast.CallExpr{Fun: f.X, Args: call.Args})
	}
	return nil
}

// funcKey: the global contract key of a function object
func funcKey(fn *types.Func) string {
	sig := fn.Type().(*types.Signature)
	pkg := ""
	if fn.Pkg() != nil {
		pkg = fn.Pkg().Path()
	}
	if recv := sig.Recv(); recv != nil {
		t := recv.Type()
		if p, ok := t.(*types.Pointer); ok {
			t = p.Elem()
		}
		if n, ok := t.(*types.Named); ok {
			if n.Obj().Pkg() != nil {
				pkg = n.Obj().Pkg().Path()
			}
			return pkg + "." + n.Obj().Name() + "." + fn.Name()
		}
		return pkg + ".?." + fn.Name()
	}
	return pkg + "." + fn.Name()
}

func (x *Exec) resultTypes(call *ast.CallExpr) []types.Type {
	t := x.typeOf(call)
	if tup, ok := t.(*types.Tuple); ok {
		var out []types.Type
		for i := 0; i < tup.Len(); i++ {
			out = append(out, tup.At(i).Type())
		}
		return out
	}
	if t == nil {
		return nil
	}
	if b, ok := t.(*types.Basic); ok && b.Kind() == types.Invalid {
		return nil
	}
	// a call used as a statement with no results has an empty tuple type
	return []types.Type{t}
}

func (x *Exec) freshResults(st *State, call *ast.CallExpr, hint string) []Val {
	var out []Val
	x.havocTop(st) // the callee may have allocated
	for _, t := range x.resultTypes(call) {
		v := x.havocVal(st, hint, t)
		x.knownRef(st, v)
		out = append(out, v)
	}
	return out
}

func (x *Exec) evCall(st *State, call *ast.CallExpr) []Val {
	// 1. conversions
	if tv, ok := x.tvOf(call.Fun); ok && tv.IsType() {
		return []Val{x.evConversion(st, call, tv.Type)}
	}
	// 2. builtins
	if id, ok := unparen(call.Fun).(*ast.Ident); ok {
		if b, isB := x.objOf(id).(*types.Builtin); isB {
			return x.evBuiltin(st, call, b.Name())
		}
	}
	// 3. dropped calls
	if x.isDroppedCall(call) {
		for _, a := range call.Args {
			if !hasCall(a) {
				continue
			}
			x.ev(st, a)
		}
		x.prog.dropped[x.fname]++
		return x.freshResults(st, call, "dropped")
	}
	// 4. mutex operations
	if vs, ok := x.evLockOp(st, call); ok {
		return vs
	}
	// 5. immediately-invoked function literal / local closure
	if lit, ok := unparen(call.Fun).(*ast.FuncLit); ok {
		var args []Val
		for _, a := range call.Args {
			args = append(args, x.ev(st, a))
		}
		return x.inlineLit(st, lit, args)
	}
	if id, ok := unparen(call.Fun).(*ast.Ident); ok {
		if v, isVar := x.objOf(id).(*types.Var); isVar && !x.isGlobal(v) {
			cv := x.getVar(st, v)
			if lit, ok := x.prog.litVals[cv.T]; ok {
				var args []Val
				for _, a := range call.Args {
					args = append(args, x.ev(st, a))
				}
				return x.inlineLit(st, lit, args)
			}
		}
	}
	fn := x.calleeFunc(call)
	// receiver and arguments
	var recv *Val
	var recvLV *lval
	var recvPtrCopy *Val
	if selx, ok := unparen(call.Fun).(*ast.SelectorExpr); ok && fn != nil {
		if sel := x.selOf(selx); sel != nil && sel.Kind() == types.MethodVal {
			rv, lv, cp := x.evReceiver(st, selx, sel, fn)
			recv, recvLV, recvPtrCopy = &rv, lv, cp
		}
	} else if ok && fn == nil {
		// call of a function-typed field or variable through a selector
		x.ev(st, selx)
	}
	var args []Val
	sig, _ := x.typeOf(call.Fun).Underlying().(*types.Signature)
	isTuple := false
	if len(call.Args) == 1 {
		if tv, ok := x.tvOf(call.Args[0]); ok {
			if tup, ok := tv.Type.(*types.Tuple); ok && tup.Len() > 1 {
				isTuple = true
			}
		}
	}
	if isTuple && sig != nil {
		// f(g()) with multi-value g
		args = x.evMulti(st, call.Args[0], sig.Params().Len())
	} else {
		var raws []Val
		for i, a := range call.Args {
			v := x.ev(st, a)
			raws = append(raws, v)
			if x.rawByCall == nil {
				x.rawByCall = map[*ast.CallExpr][]Val{}
			}
			x.rawByCall[call] = raws
			if sig != nil {
				var pt types.Type
				if sig.Variadic() && i >= sig.Params().Len()-1 {
					pt = sig.Params().At(sig.Params().Len() - 1).Type()
					if call.Ellipsis == token.NoPos {
						pt = pt.(*types.Slice).Elem()
					}
				} else if i < sig.Params().Len() {
					pt = sig.Params().At(i).Type()
				}
				if pt != nil {
					v = x.convertTo(st, v, pt)
				}
			}
			args = append(args, v)
		}
	}
	if sig != nil && sig.Variadic() && call.Ellipsis == token.NoPos {
		// pack the variadic tail into a slice value
		np := sig.Params().Len()
		st0 := sig.Params().At(np - 1).Type()
		srt := x.vc.sortOf(st0)
		inf := x.vc.info(srt)
		arr := x.vc.constArr(x.vc.intSort(), inf.Elem)
		n := int64(0)
		for _, a := range args[min(np-1, len(args)):] {
			arr = fmt.Sprintf("(store %s %s %s)", arr, x.vc.intLit(n), a.T)
			n++
		}
		isnil := "false"
		if n == 0 {
			isnil = "true"
		}
		packed := Val{T: x.vc.mkSlice(srt, arr, x.vc.intLit(n), isnil), Sort: srt, GoT: st0}
		tail := append([]Val{}, args[min(np-1, len(args)):]...)
		pv := x.name("varargs", packed)
		if x.varargsByCall == nil {
			x.varargsByCall = map[*ast.CallExpr][]Val{}
		}
		x.varargsByCall[call] = tail
		// ground terms for the elements: quantified clauses of the callee's contract over args[i] are instantiated at them
		if pv.T != packed.T && n <= 16 {
			for k, a := range tail {
				x.vc.termFact(eq(x.vc.slIndex(pv, x.vc.intLit(int64(k))).T, a.T))
			}
		}
		args = append(args[:min(np-1, len(args))], pv)
	}
	if len(call.Args) > 0 && !isTuple {
		x.rawArgs = rawsOf(x, call, args)
	}
	rawCopy := append([]Val{}, x.rawArgs...) // interior pointers passed as interface{} are copied out too
	var results []Val
	// interior pointers that may have travelled inside other values (a struct field, a slice element): the copy
	// and the location are compared before and after the call
	type snap struct{ t, f Val }
	var snaps []snap
	if x.spawnMode == 0 {
		for _, ip := range x.interiors {
			if _, live := x.prog.interior[ip.ref.T]; !live {
				snaps = append(snaps, snap{})
				continue
			}
			snaps = append(snaps, snap{t: x.deref(st, ip.ref, ip.lv.typ), f: x.load(st, ip.lv)})
		}
	}
	if fn == nil && x.spawnMode > 0 {
		results = x.freshResults(st, call, "spawned")
	} else if fn == nil {
		// call through a function value: a "fnvalue" contract for the field / parameter, else unknown effect
		if c := x.fnValueContract(call); c != nil && sig != nil {
			results = x.applyContractSig(st, call, sig, c.Local, "self", c, nil, args)
		} else {
			// like a call of a contract-less function: everything is havocked for a reason unrelated to the
			// property (recorded, so that a NEW such call makes failures "needs a contract", not violations)
			x.prog.noContract[x.fname+" => funcvalue:"+x.prog.text(call.Fun)] = true
			x.havocAll(st, "call through function value at "+x.posn(call.Pos()).String())
			results = x.freshResults(st, call, "fv")
		}
	} else {
		results = x.callFunc(st, call, fn, recv, args)
	}
	// copy-out for receivers / arguments that were interior pointers
	if recvLV != nil && recvPtrCopy != nil {
		x.storeLV(st, recvLV, x.deref(st, *recvPtrCopy, recvLV.typ))
	}
	for _, a := range append(append([]Val{}, args...), rawCopy...) {
		if lv, ok := x.prog.interior[a.T]; ok {
			x.storeLV(st, lv, x.deref(st, a, lv.typ))
			delete(x.prog.interior, a.T)
		}
	}
	for i, sn := range snaps {
		if sn.t.T == "" || i >= len(x.interiors) {
			continue
		}
		ip := x.interiors[i]
		if _, live := x.prog.interior[ip.ref.T]; !live {
			continue
		}
		postT, postF := x.deref(st, ip.ref, ip.lv.typ), x.load(st, ip.lv)
		if postT.T == sn.t.T && postF.T == sn.f.T {
			continue // neither the copy nor the location can have been written
		}
		// the call may have written the location through the pointer (seen as a change of the copy) or directly:
		// the one that changed wins; if both did, the value is unknown
		unk := x.havocVal(st, "aliased", ip.lv.typ)
		nv := postF
		nv.T = ite(eq(postT.T, sn.t.T), postF.T, ite(eq(postF.T, sn.f.T), postT.T, unk.T))
		nv = x.name("synced", nv)
		fv, tv := nv, nv
		if ip.pc != "" && ip.pc != "true" {
			// on paths that did not take the pointer there is nothing to bring in step
			fv.T = ite(ip.pc, nv.T, postF.T)
			tv.T = ite(ip.pc, nv.T, postT.T)
		}
		x.storeLV(st, ip.lv, fv)
		x.storeRef(st, ip.ref, ip.lv.typ, tv)
		x.vc.note("interior pointer: copy and location brought back in step after a call")
	}
	return results
}

func unparen(e ast.Expr) ast.Expr {
	for {
		p, ok := e.(*ast.ParenExpr)
		if !ok {
			return e
		}
		e = p.X
	}
}

// evReceiver evaluates the receiver operand of a method call, inserting the implicit & or *.
func (x *Exec) evReceiver(st *State, selx *ast.SelectorExpr, sel *types.Selection, fn *types.Func) (Val, *lval, *Val) {
	sig := fn.Type().(*types.Signature)
	recvT := sig.Recv().Type()
	_, wantPtr := recvT.Underlying().(*types.Pointer)
	if _, isIface := recvT.Underlying().(*types.Interface); isIface {
		wantPtr = false
	}
	// walk the embedding path except the last step (the method itself)
	path := sel.Index()
	t := x.typeOf(selx.X)
	if len(path) == 1 {
		_, havePtr := t.Underlying().(*types.Pointer)
		switch {
		case wantPtr && !havePtr:
			// implicit address-of
			if id, ok := unparen(selx.X).(*ast.Ident); ok {
				if v, isVar := x.objOf(id).(*types.Var); isVar && x.boxed[v] {
					x.getVar(st, v)
					r := st.vars[v]
					r.GoT = recvT
					return r, nil, nil
				}
			}
			lv := x.lvOrTemp(st, selx.X)
			cur := x.load(st, lv)
			r := x.alloc(st)
			r.GoT = recvT
			x.storeRef(st, r, lv.typ, cur)
			return r, lv, &r
		case !wantPtr && havePtr:
			if _, isIface := recvT.Underlying().(*types.Interface); isIface {
				return x.ev(st, selx.X), nil, nil
			}
			p := x.ev(st, selx.X)
			x.nilCheck(st, p, selx.Pos())
			return x.deref(st, p, t.Underlying().(*types.Pointer).Elem()), nil, nil
		default:
			return x.ev(st, selx.X), nil, nil
		}
	}
	// promoted method through embedded fields
	cur := x.ev(st, selx.X)
	for _, fi := range path[:len(path)-1] {
		if pt, ok := t.Underlying().(*types.Pointer); ok {
			x.nilCheck(st, cur, selx.Pos())
			cur = x.deref(st, cur, pt.Elem())
			t = pt.Elem()
		}
		stt := t.Underlying().(*types.Struct)
		f := stt.Field(fi)
		v, ok := x.vc.selField(cur, f.Name())
		if !ok {
			panic(unsupported("promoted method receiver path"))
		}
		cur = v
		t = f.Type()
	}
	_, havePtr := t.Underlying().(*types.Pointer)
	switch {
	case wantPtr && !havePtr:
		r := x.alloc(st)
		r.GoT = recvT
		x.storeRef(st, r, t, cur)
		x.vc.note("pointer-receiver method on embedded value: receiver modelled as a copy")
		return r, nil, nil
	case !wantPtr && havePtr:
		if _, isIface := recvT.Underlying().(*types.Interface); isIface {
			return cur, nil, nil
		}
		x.nilCheck(st, cur, selx.Pos())
		return x.deref(st, cur, t.Underlying().(*types.Pointer).Elem()), nil, nil
	}
	return cur, nil, nil
}

func (x *Exec) evConversion(st *State, call *ast.CallExpr, to types.Type) Val {
	v := x.ev(st, call.Args[0])
	from := x.typeOf(call.Args[0])
	ts := x.vc.sortOf(to)
	if v.Sort == "Nil" {
		return Val{T: x.vc.nilTerm(ts), Sort: ts, GoT: to}
	}
	if v.Sort == ts {
		// integer narrowing/widening is the identity on mathematical integers (assumption: no overflow)
		if isInteger(to) && isInteger(from) {
			tb, fb := to.Underlying().(*types.Basic), from.Underlying().(*types.Basic)
			if tb.Kind() != fb.Kind() {
				if x.contract != nil && x.contract.Opts["checked_arith"] {
					if lo, hi, ok := intRange(tb); ok {
						x.assert(st, "overflow", and(x.vc.cmp("<=", x.vc.bigLit(lo), v.T, true), x.vc.cmp("<=", v.T, x.vc.bigLit(hi), true)),
							fmt.Sprintf("conversion to %s does not overflow", tb.Name()), call.Pos())
					}
				}
			}
		}
		v.GoT = to
		return v
	}
	if inf := x.vc.info(ts); inf != nil && inf.Kind == kOpaque {
		return x.convertTo(st, v, to)
	}
	// string <-> []byte and friends: injective uninterpreted conversion
	fn := "conv_" + sanitize(v.Sort) + "_to_" + sanitize(ts)
	x.vc.declFun(fn, []string{v.Sort}, ts)
	r := Val{T: fmt.Sprintf("(%s %s)", fn, v.T), Sort: ts, GoT: to}
	return r
}

func intRange(b *types.Basic) (string, string, bool) {
	switch b.Kind() {
	case types.Int8:
		return "-128", "127", true
	case types.Int16:
		return "-32768", "32767", true
	case types.Int32:
		return "-2147483648", "2147483647", true
	case types.Int64, types.Int:
		return "-9223372036854775808", "9223372036854775807", true
	case types.Uint8:
		return "0", "255", true
	case types.Uint16:
		return "0", "65535", true
	case types.Uint32:
		return "0", "4294967295", true
	case types.Uint64, types.Uint:
		return "0", "18446744073709551615", true
	}
	return "", "", false
}

func (x *Exec) evBuiltin(st *State, call *ast.CallExpr, name string) []Val {
	intT := types.Typ[types.Int]
	switch name {
	case "len":
		v := x.ev(st, call.Args[0])
		return []Val{x.lenOf(v)}
	case "cap":
		v := x.ev(st, call.Args[0])
		c := x.havocVal(st, "cap", intT)
		x.assume(st, x.vc.cmp(">=", c.T, x.lenOf(v).T, true))
		return []Val{c}
	case "append":
		s := x.ev(st, call.Args[0])
		rt := x.typeOf(call)
		srt := x.vc.sortOf(rt)
		if s.Sort == "Nil" {
			s = Val{T: x.vc.nilTerm(srt), Sort: srt, GoT: rt}
		}
		if len(call.Args) == 1 {
			return []Val{s}
		}
		if call.Ellipsis != token.NoPos {
			o := x.ev(st, call.Args[1])
			if o.Sort == "Str" {
				x.vc.note("append(bytes, string...): result unconstrained")
				return []Val{x.havocVal(st, "app", rt)}
			}
			return []Val{x.appendSlice(st, s, o)}
		}
		cur := s
		elemT := rt.Underlying().(*types.Slice).Elem()
		for _, a := range call.Args[1:] {
			v := x.convertTo(st, x.ev(st, a), elemT)
			nl := x.vc.arith("+", x.vc.slLen(cur), x.vc.intLit(1), true)
			cur = x.name("app", Val{T: x.vc.mkSlice(cur.Sort, fmt.Sprintf("(store %s %s %s)", x.vc.slArr(cur), x.vc.slLen(cur), v.T), nl, "false"), Sort: cur.Sort, GoT: rt})
		}
		return []Val{cur}
	case "make":
		t := x.typeOf(call)
		srt := x.vc.sortOf(t)
		switch t.Underlying().(type) {
		case *types.Map:
			for _, a := range call.Args[1:] {
				x.ev(st, a)
			}
			return []Val{{T: x.vc.emptyMap(srt), Sort: srt, GoT: t}}
		case *types.Slice:
			n := x.ev(st, call.Args[1])
			for _, a := range call.Args[2:] {
				x.ev(st, a) // capacity: evaluated for its effects / checks only
			}
			inf := x.vc.info(srt)
			arr := x.vc.constArr(x.vc.intSort(), inf.Elem)
			if x.safety {
				x.assert(st, "bounds", x.vc.cmp(">=", n.T, x.vc.intLit(0), true), "make: non-negative length", call.Pos())
			}
			x.assume(st, x.vc.cmp(">=", n.T, x.vc.intLit(0), true))
			return []Val{{T: x.vc.mkSlice(srt, arr, n.T, "false"), Sort: srt, GoT: t}}
		case *types.Chan:
			v := x.freshVal("chan", t)
			x.assume(st, not(eq(v.T, x.vc.nilTerm(v.Sort))))
			return []Val{v}
		}
	case "new":
		t := x.typeOf(call)
		et := t.Underlying().(*types.Pointer).Elem()
		r := x.alloc(st)
		r.GoT = t
		es := x.vc.sortOf(et)
		x.storeRef(st, r, et, Val{T: x.vc.zero(es), Sort: es})
		return []Val{r}
	case "delete":
		lv := x.lvOrTemp(st, call.Args[0])
		m := x.load(st, lv)
		mt := x.typeOf(call.Args[0]).Underlying().(*types.Map)
		k := x.convertTo(st, x.ev(st, call.Args[1]), mt.Key())
		nm := m
		nm.T = x.vc.mapDelete(m, k.T)
		x.storeLV(st, lv, x.name("del", nm))
		return nil
	case "copy":
		lv := x.lvOrTemp(st, call.Args[0])
		x.ev(st, call.Args[1])
		x.vc.note("copy(): destination unconstrained afterwards")
		d := x.load(st, lv)
		nd := x.havocVal(st, "copied", lv.typ)
		x.assume(st, eq(x.vc.slLen(nd), x.vc.slLen(d)))
		x.storeLV(st, lv, nd)
		return []Val{x.havocVal(st, "ncopied", intT)}
	case "close", "print", "println":
		for _, a := range call.Args {
			x.ev(st, a)
		}
		return nil
	case "recover":
		// partial correctness: paths that panic are not followed (they end at the failing operation), so on
		// every path that reaches a deferred recover() there is no panic in flight and it returns nil
		x.vc.note("recover() returns nil: panicking paths are outside the partial-correctness semantics (see safety obligations)")
		anyT := types.NewInterfaceType(nil, nil)
		srt := x.vc.sortOf(anyT)
		return []Val{{T: x.vc.nilTerm(srt), Sort: srt, GoT: anyT}}
	case "min", "max":
		a := x.ev(st, call.Args[0])
		for _, e := range call.Args[1:] {
			b := x.ev(st, e)
			op := "<"
			if name == "max" {
				op = ">"
			}
			a = Val{T: ite(x.vc.cmp(op, a.T, b.T, true), a.T, b.T), Sort: a.Sort, GoT: a.GoT}
		}
		return []Val{a}
	}
	panic(unsupported("builtin " + name))
}

func (x *Exec) lenOf(v Val) Val {
	intT := types.Typ[types.Int]
	inf := x.vc.info(v.Sort)
	if inf != nil {
		switch inf.Kind {
		case kSlice:
			if !strings.Contains(v.T, "!q") {
				x.vc.termFact(x.vc.cmp(">=", x.vc.slLen(v), x.vc.intLit(0), true))
			}
			return Val{T: x.vc.slLen(v), Sort: x.vc.intSort(), GoT: intT}
		case kMap:
			// len() of a map: its well-formedness (non-negative size, a present key means a non-empty
			// non-nil map) holds of every real map value
			if !strings.Contains(v.T, "!q") {
				x.vc.termFact(x.vc.wf(v))
			}
			return Val{T: x.vc.mapCard(v), Sort: x.vc.intSort(), GoT: intT}
		case kArray:
			return Val{T: x.vc.intLit(v.GoT.(types.Type).Underlying().(*types.Array).Len()), Sort: x.vc.intSort(), GoT: intT}
		}
	}
	if v.Sort == "Str" {
		x.vc.declFun("str_len", []string{"Str"}, x.vc.intSort())
		t := fmt.Sprintf("(str_len %s)", v.T)
		if !strings.Contains(v.T, "!q") {
			x.vc.termFact(x.vc.cmp(">=", t, x.vc.intLit(0), true))
			x.vc.termFact(eq("(str_len str_empty)", x.vc.intLit(0)))
			x.vc.termFact(fmt.Sprintf("(forall ((s!l Str)) (! (=> (= (str_len s!l) %s) (= s!l str_empty)) :pattern ((str_len s!l))))", x.vc.intLit(0)))
		}
		return Val{T: t, Sort: x.vc.intSort(), GoT: intT}
	}
	if strings.HasPrefix(v.Sort, "Ch_") {
		return Val{T: x.vc.fresh("chlen", x.vc.intSort()), Sort: x.vc.intSort(), GoT: intT}
	}
	panic(unsupported("len of sort " + v.Sort))
}

// appendSlice: append(s, o...)
func (x *Exec) appendSlice(st *State, s, o Val) Val {
	s = x.name("apl", s)
	o = x.name("apr", o)
	inf := x.vc.info(s.Sort)
	is := x.vc.intSort()
	arr := x.vc.fresh("apparr", fmt.Sprintf("(Array %s %s)", is, inf.Elem))
	sl, ol := x.vc.slLen(s), x.vc.slLen(o)
	x.vc.fact(fmt.Sprintf("(forall ((i!a %s)) (! (= (select %s i!a) (ite %s (select %s i!a) (select %s %s))) :pattern ((select %s i!a))))",
		is, arr, x.vc.cmp("<", "i!a", sl, true), x.vc.slArr(s), x.vc.slArr(o), x.vc.arith("-", "i!a", sl, true), arr))
	isnil := and(fmt.Sprintf("(%s_nil %s)", s.Sort, s.T), eq(ol, x.vc.intLit(0)))
	return Val{T: x.vc.mkSlice(s.Sort, arr, x.vc.arith("+", sl, ol, true), isnil), Sort: s.Sort, GoT: s.GoT}
}

// ---- calls to functions ----

func (x *Exec) callFunc(st *State, call *ast.CallExpr, fn *types.Func, recv *Val, args []Val) []Val {
	key := funcKey(fn)
	if x.spawnMode > 0 {
		// a spawned call: only the caller's call-site assertions and the callee's call-history ghosts
		c := x.prog.specs.Contracts[x.pkg.PkgPath+"::"+key]
		if c == nil {
			c = x.prog.specs.Contracts[key]
		}
		if c != nil {
			return x.applyContract(st, call, fn, c, recv, args)
		}
		return x.freshResults(st, call, "spawned")
	}
	// special library models
	if vs, ok := x.libModel(st, call, fn, key, recv, args); ok {
		return vs
	}
	// no reentrancy: a callee that locks a mutex of its receiver must not be called with that mutex held
	if x.contract != nil && x.contract.Opts["own"] && len(x.inRes) == 0 && x.dry == 0 {
		if selx, ok := unparen(call.Fun).(*ast.SelectorExpr); ok && fn.Type().(*types.Signature).Recv() != nil {
			rtext := x.prog.text(selx.X)
			for mu := range x.prog.acquiredOnReceiver(fn, 0) {
				goal := "true"
				if st.held[rtext+"."+mu] {
					goal = "false"
				}
				x.counts["lock.reenter"]++
				x.assertNamed(st, fmt.Sprintf("lock.reenter.%d", x.counts["lock.reenter"]), "lock", goal,
					"no call of "+fn.Name()+", which locks "+rtext+"."+mu+", while this function holds it (sync mutexes are not reentrant: self-deadlock, or deadlock with a waiting writer)", x.posn(call.Pos()))
			}
		}
	}
	// extern contracts are local to the package whose code is being executed; where a package states its own
	// (assumed) view of a function of another package, that view is the one its proofs rest on
	c := x.prog.specs.Contracts[x.pkg.PkgPath+"::"+key]
	if c == nil {
		c = x.prog.specs.Contracts[key]
	}
	if c != nil && !(x.contract != nil && x.contract.Inlines[c.Local]) {
		return x.applyContract(st, call, fn, c, recv, args)
	}
	// inline: explicitly requested, or a contract-less tiny helper
	if fd := x.prog.funcDecl(fn); fd != nil && fd.Body != nil {
		local := strings.TrimPrefix(key, fn.Pkg().Path()+".")
		if (x.contract != nil && (x.contract.Inlines[local] || x.contract.Inlines[fn.Name()])) || x.prog.autoInline(fn, fd) {
			return x.inlineFunc(st, fn, fd, recv, args)
		}
	}
	// pure library functions: deterministic uninterpreted function of the arguments
	if x.prog.isPureLib(fn) {
		return x.pureUF(st, call, fn, key, recv, args)
	}
	// unknown effect
	inModule := fn.Pkg() != nil && strings.HasPrefix(fn.Pkg().Path(), x.prog.modPath)
	isIfaceMethod := false
	if r := fn.Type().(*types.Signature).Recv(); r != nil {
		_, isIfaceMethod = r.Type().Underlying().(*types.Interface)
	}
	if isIfaceMethod && !inModule {
		x.vc.note("method " + key + " of a library interface: assumed not to call back into module state")
	}
	if inModule {
		x.prog.noContract[x.fname+" => "+key] = true
		x.havocAll(st, "call to "+key+" (no contract)")
	} else {
		// library call: havoc what it can reach through pointer arguments
		all := append([]Val{}, args...)
		if recv != nil {
			all = append([]Val{*recv}, args...)
		}
		// pointers passed as interface{} (json.Unmarshal(data, &v), Decode(&v), ...) count too
		all = append(all, x.rawArgs...)
		for _, a := range all {
			if t, ok := a.GoT.(types.Type); ok && t != nil {
				if pt, isPtr := t.Underlying().(*types.Pointer); isPtr {
					// the library may write the object the pointer refers to (not other objects of that type);
					// opaque library objects carry no modelled state
					if inf := x.vc.info(x.vc.sortOf(pt.Elem())); inf != nil && inf.Kind == kOpaque {
						continue
					}
					nv := x.havocVal(st, "written", pt.Elem())
					x.storeRef(st, a, pt.Elem(), nv)
					x.vc.note("library call " + key + ": the " + pt.Elem().String() + " object passed by pointer is unconstrained afterwards")
				}
			}
		}
		x.vc.note("library call " + key + ": result unconstrained")
	}
	return x.freshResults(st, call, fn.Name())
}

func (x *Exec) pureUF(st *State, call *ast.CallExpr, fn *types.Func, key string, recv *Val, args []Val) []Val {
	rts := x.resultTypes(call)
	all := args
	if recv != nil {
		all = append([]Val{*recv}, args...)
	}
	var sorts, terms []string
	for _, a := range all {
		if a.Sort == "Nil" {
			panic(unsupported("nil literal passed to pure library function " + key))
		}
		sorts = append(sorts, a.Sort)
		terms = append(terms, a.T)
	}
	var out []Val
	for i, rt := range rts {
		rs := x.vc.sortOf(rt)
		name := fmt.Sprintf("uf_%s_%d", sanitize(key), i)
		if len(name) > 100 {
			name = name[:100]
		}
		name += "_" + sanitize(strings.Join(sorts, "_"))
		if len(name) > 160 {
			name = name[:160]
		}
		var t string
		if len(all) == 0 {
			x.vc.declConst(name, rs)
			t = name
		} else {
			x.vc.declFun(name, sorts, rs)
			t = fmt.Sprintf("(%s %s)", name, strings.Join(terms, " "))
		}
		v := Val{T: t, Sort: rs, GoT: rt}
		v = x.name(fn.Name(), v)
		x.assume(st, x.vc.wf(v))
		out = append(out, v)
	}
	x.vc.note("library function " + key + " treated as a deterministic pure function of its arguments")
	return out
}

// inlineFunc executes the body of a callee in the caller's state.
func (x *Exec) inlineFunc(st *State, fn *types.Func, fd *ast.FuncDecl, recv *Val, args []Val) []Val {
	key := funcKey(fn)
	for _, k := range x.inlineStack {
		if k == key {
			panic(unsupported("recursive inlining of " + key))
		}
	}
	if len(x.inlineStack) > 6 {
		panic(unsupported("inlining too deep at " + key))
	}
	sig := fn.Type().(*types.Signature)
	// bind parameters: find the declared objects
	if recv != nil && fd.Recv != nil && len(fd.Recv.List) > 0 && len(fd.Recv.List[0].Names) > 0 {
		if obj := x.objOf(fd.Recv.List[0].Names[0]); obj != nil {
			st.vars[obj] = *recv
		}
	}
	i := 0
	for _, f := range fd.Type.Params.List {
		for _, n := range f.Names {
			if obj := x.objOf(n); obj != nil && n.Name != "_" {
				if x.prog.isBoxed(fd, obj) {
					x.boxed[obj] = true
					delete(st.vars, obj)
					x.setVar(st, obj, args[i])
				} else {
					st.vars[obj] = args[i]
				}
			}
			i++
		}
		if len(f.Names) == 0 {
			i++
		}
	}
	for obj := range x.prog.boxedIn(fd) {
		x.boxed[obj] = true
	}
	// result holders
	var results []*types.Var
	if fd.Type.Results != nil {
		for _, f := range fd.Type.Results.List {
			for _, n := range f.Names {
				if obj, ok := x.objOf(n).(*types.Var); ok {
					results = append(results, obj)
					srt := x.vc.sortOf(obj.Type())
					st.vars[obj] = Val{T: x.vc.zero(srt), Sort: srt, GoT: obj.Type()}
				}
			}
		}
	}
	if len(results) == 0 {
		for j := 0; j < sig.Results().Len(); j++ {
			results = append(results, types.NewVar(token.NoPos, fn.Pkg(), fmt.Sprintf("ret%d", j), sig.Results().At(j).Type()))
		}
	}
	x.inRes = append(x.inRes, results)
	x.inRets = append(x.inRets, nil)
	x.inlineStack = append(x.inlineStack, key)
	savedDefers := st.defers
	st.defers = nil
	savedLoop := x.loopN
	savedPkg := x.pkg
	if p := x.prog.pkgOf(fn.Pkg()); p != nil {
		x.pkg = p
	}
	f := x.execBlock(st, fd.Body.List)
	if f.normal != nil {
		// implicit return at the end of the body
		var vals []Val
		for _, r := range results {
			vals = append(vals, x.getVar(f.normal, r))
		}
		x.finishReturn(f.normal, vals)
	}
	x.pkg = savedPkg
	x.loopN = savedLoop
	rets := x.inRets[len(x.inRets)-1]
	x.inRes = x.inRes[:len(x.inRes)-1]
	x.inRets = x.inRets[:len(x.inRets)-1]
	x.inlineStack = x.inlineStack[:len(x.inlineStack)-1]
	x.prog.inlined[x.fname+" <- "+key] = true
	var sts []*State
	for _, r := range rets {
		// deferred calls of the inlined callee run at its returns
		ds := r.st.defers
		r.st.defers = nil
		for i := len(ds) - 1; i >= 0; i-- {
			x.runDeferred(r.st, ds[i])
		}
		sts = append(sts, r.st)
	}
	m := x.merge(sts)
	if m == nil {
		// the callee never returns (panics on all paths)
		x.assume(st, "false")
		var out []Val
		for _, r := range results {
			srt := x.vc.sortOf(r.Type())
			out = append(out, Val{T: x.vc.zero(srt), Sort: srt, GoT: r.Type()})
		}
		st.defers = savedDefers
		return out
	}
	*st = *m
	st.defers = savedDefers
	var out []Val
	for _, r := range results {
		out = append(out, st.vars[r])
	}
	return out
}

func (x *Exec) inlineLit(st *State, lit *ast.FuncLit, args []Val) []Val {
	i := 0
	for _, f := range lit.Type.Params.List {
		for _, n := range f.Names {
			if obj := x.objOf(n); obj != nil && n.Name != "_" && i < len(args) {
				st.vars[obj] = args[i]
			}
			i++
		}
	}
	var results []*types.Var
	if lit.Type.Results != nil {
		for _, f := range lit.Type.Results.List {
			if len(f.Names) == 0 {
				results = append(results, types.NewVar(token.NoPos, x.pkg.Types, fmt.Sprintf("ret%d", len(results)), x.typeOf(f.Type)))
			}
			for _, n := range f.Names {
				if obj, ok := x.objOf(n).(*types.Var); ok {
					results = append(results, obj)
					srt := x.vc.sortOf(obj.Type())
					st.vars[obj] = Val{T: x.vc.zero(srt), Sort: srt, GoT: obj.Type()}
				}
			}
		}
	}
	x.inRes = append(x.inRes, results)
	x.inRets = append(x.inRets, nil)
	savedDefers := st.defers
	st.defers = nil
	savedLoop := x.loopN
	f := x.execBlock(st, lit.Body.List)
	if f.normal != nil {
		var vals []Val
		for _, r := range results {
			vals = append(vals, x.getVar(f.normal, r))
		}
		x.finishReturn(f.normal, vals)
	}
	x.loopN = savedLoop
	rets := x.inRets[len(x.inRets)-1]
	x.inRes = x.inRes[:len(x.inRes)-1]
	x.inRets = x.inRets[:len(x.inRets)-1]
	var sts []*State
	for _, r := range rets {
		ds := r.st.defers
		r.st.defers = nil
		for i := len(ds) - 1; i >= 0; i-- {
			x.runDeferred(r.st, ds[i])
		}
		sts = append(sts, r.st)
	}
	m := x.merge(sts)
	if m == nil {
		x.assume(st, "false")
		return nil
	}
	*st = *m
	st.defers = savedDefers
	var out []Val
	for _, r := range results {
		out = append(out, st.vars[r])
	}
	return out
}

// ---- contract application ----

func (x *Exec) applyContract(st *State, call *ast.CallExpr, fn *types.Func, c *Contract, recv *Val, args []Val) []Val {
	sig := fn.Type().(*types.Signature)
	rn := "self"
	if fd := x.prog.funcDecl(fn); fd != nil && fd.Recv != nil && len(fd.Recv.List) > 0 && len(fd.Recv.List[0].Names) > 0 {
		rn = fd.Recv.List[0].Names[0].Name
	} else if sig.Recv() != nil && sig.Recv().Name() != "" {
		rn = sig.Recv().Name()
	}
	return x.applyContractSig(st, call, sig, fn.Name(), rn, c, recv, args)
}

func (x *Exec) applyContractSig(st *State, call *ast.CallExpr, sig *types.Signature, fnName, rn string, c *Contract, recv *Val, args []Val) []Val {
	names := map[string]Val{}
	raw := x.rawArgs
	x.curRaw = map[string]Val{}
	// receiver name
	if recv != nil {
		names[rn] = *recv
		names["self"] = *recv
	}
	for i := 0; i < sig.Params().Len() && i < len(args); i++ {
		pn := sig.Params().At(i).Name()
		if i < len(c.Params) {
			pn = c.Params[i]
		}
		if pn == "" || pn == "_" {
			pn = fmt.Sprintf("a%d", i)
		}
		names[pn] = args[i]
		names["arg_"+pn] = args[i] // the parameter, also where a result name (res, err) hides its own name
		if i < len(raw) {
			x.curRaw[pn] = raw[i]
		}
	}
	pre := st.clone()
	// call-site assertions of the function under verification (its own locals are visible)
	if x.contract != nil && len(x.inRes) == 0 {
		// the callee may be named by its local name (Type.Method, Func) or qualified by its package name
		caKey := c.Local
		if k := strings.LastIndex(c.PkgPath, "/"); len(x.contract.CallAsserts[caKey]) == 0 {
			caKey = c.PkgPath[k+1:] + "." + c.Local
		}
		if len(x.contract.CallAsserts[caKey]) > 0 {
			x.counts["atcall:"+caKey]++
		}
		for i, ca := range x.contract.CallAsserts[caKey] {
			cenv := x.specEnvAt(st, call.Pos())
			for _, lc := range x.curLoops {
				for k, v := range lc.names {
					cenv.names[k] = v // idxN, rngN, seenN ... of the enclosing loops, at the head of the current iteration
				}
			}
			for k, v := range names {
				if _, isLocal := cenv.lookup(k); !isLocal {
					cenv.names[k] = v // the callee's parameter names denote the actual arguments
				}
				cenv.names["arg_"+k] = v // arg_<param>: the actual argument, also when a local has the parameter's name
				if rv, ok := x.curRaw[k]; ok && rv.T != v.T {
					cenv.names["raw_"+k] = rv // raw_<param>: the argument before its conversion to the (interface) parameter type
				}
			}
			// a clause that names a local which is not in scope at THIS call site says nothing about it (it is about the
			// call sites where that local exists); a clause that is in scope at no call site at all makes the function
			// undecided (see verifyFunc)
			if _, ok := x.tryBoolean(cenv, ca.Expr); !ok {
				x.vc.note("at_call " + c.Local + ": clause not in scope at " + x.posn(call.Pos()).String() + ": " + trunc(ca.Src, 60))
				continue
			}
			x.counts[fmt.Sprintf("atcall-eval:%s#%d", caKey, i)]++
			for j, cj := range x.prog.expandConj(ca.Expr, 0) {
				cls := fmt.Sprintf("callsite@%s.%d", c.Local, i+1)
				if j > 0 {
					cls += fmt.Sprintf(".%d", j+1)
				}
				x.assert(st, cls, cenv.boolean(cj), "at every call of "+c.Local+": "+exprText(cj), call.Pos())
			}
		}
	}
	// preconditions
	env := x.specEnv(st, pre, names, c.PkgPath)
	x.evalLets(env, c)
	if x.spawnMode > 0 {
		return x.applySpawned(st, pre, call, sig, fnName, c, names)
	}
	for i, rq := range c.Requires {
		for j, cj := range splitConj(rq.Expr) {
			g := env.boolean(cj)
			cls := fmt.Sprintf("pre@%s.%d", c.Local, i+1)
			if j > 0 {
				cls += fmt.Sprintf(".%d", j+1)
			}
			x.assert(st, cls, g, "precondition of "+c.Local+": "+exprText(cj), call.Pos())
		}
	}
	// frame
	x.applyModifies(st, c)
	for _, m := range c.Modifies {
		if !strings.HasPrefix(m, "*") || m == "*" {
			continue
		}
		if strings.Contains(m, "[].") {
			// *param[].Field: the objects the Field pointers of the elements refer to
			pn, fld, pointee, ok := x.prog.elemFieldItemSig(m, sig)
			if !ok {
				panic(unsupported("modifies " + m + ": not a slice-of-struct parameter with a pointer field"))
			}
			tail, known := x.varargsByCall[call]
			isLast := sig.Variadic() && sig.Params().At(sig.Params().Len()-1).Name() == pn
			if known && isLast && call.Ellipsis == token.NoPos {
				for _, ev := range tail {
					et := sig.Params().At(sig.Params().Len() - 1).Type().(*types.Slice).Elem()
					obj := ev
					if pt, isPtr := et.Underlying().(*types.Pointer); isPtr {
						obj = x.deref(st, ev, pt.Elem())
					}
					fv, okf := x.vc.selField(obj, fld)
					if !okf {
						panic(unsupported("modifies " + m + ": field not modelled"))
					}
					nv := x.havocVal(st, "written_"+fld, pointee)
					x.storeRef(st, fv, pointee, nv)
				}
			} else {
				hk, _ := x.heapKeyT(pointee)
				x.heapFor(st, pointee)
				x.havocKey(st, hk)
			}
			continue
		}
		// *param: the object the pointer argument refers to (type taken from the call site)
		pn := m[1:]
		for i := 0; i < sig.Params().Len() && i < len(call.Args); i++ {
			name := sig.Params().At(i).Name()
			if i < len(c.Params) {
				name = c.Params[i]
			}
			if name != pn {
				continue
			}
			at := x.typeOf(call.Args[i])
			if pt, ok := at.Underlying().(*types.Pointer); ok {
				if i < len(raw) && raw[i].Sort == "Int" {
					// only the object the argument points to is written
					nv := x.havocVal(st, "reply", pt.Elem())
					x.storeRef(st, raw[i], pt.Elem(), nv)
				} else {
					hk, _ := x.heapKeyT(pt.Elem())
					x.heapFor(st, pt.Elem())
					x.havocKey(st, hk)
				}
			}
		}
	}
	// results (the callee may have allocated: the frontier moves before results are bound)
	x.havocTop(st)
	rts := x.resultTypes(call)
	var results []Val
	for i, rt := range rts {
		hint := fnName
		if i < sig.Results().Len() && sig.Results().At(i).Name() != "" {
			hint = sig.Results().At(i).Name()
		}
		v := x.havocVal(st, hint, rt)
		x.knownRef(st, v)
		results = append(results, v)
	}
	x.bindResults(names, sig, results)
	post := x.specEnv(st, pre, names, c.PkgPath)
	x.evalLets(post, c)
	for _, en := range c.Ensures {
		if strings.HasPrefix(en.Label, "lemma") {
			continue // internal proof steps (may mention the callee's locals)
		}
		if t, ok := x.tryBoolean(post, en.Expr); ok {
			x.assume(st, t)
		} else {
			x.vc.note("ensures of " + c.Local + " mentioning the callee's locals not available to callers: " + trunc(en.Src, 60))
		}
	}
	x.applyCounts(st, post, c)
	kind := c.Kind
	if c.Opts["trusted"] || c.Opts["assume_post"] {
		kind = "trusted"
	}
	x.prog.usedContracts[x.fname+" -> "+c.Key+" ["+kind+"]"] = true
	return results
}

func (x *Exec) applyCounts(st *State, post *specEnv, c *Contract) {
	// call-history ghosts: pure bookkeeping by the caller of how often this callee returned with a given outcome
	for _, cd := range c.Counts {
		g, ok := x.prog.specs.Ghosts[cd.Ghost]
		if !ok {
			panic(unsupported("counts: unknown ghost " + cd.Ghost))
		}
		cur := x.ghostVal(st, g)
		nv := cur
		if cd.Assign != nil {
			av := post.value(cd.Assign)
			if cur.Set != nil && av.Set != nil && av.SetElem == cur.SetElem {
				// set-valued ghost: a fresh set constant with exactly the members of the expression
				ns := x.vc.fresh("gs_"+cd.Ghost, cur.Sort)
				bv := "gsx!" + sanitize(cd.Ghost)
				x.assume(st, fmt.Sprintf("(forall ((%s %s)) (= (select %s %s) %s))", bv, cur.SetElem, ns, bv, av.Set(Val{T: bv, Sort: cur.SetElem})))
				w := x.wrapSet(Val{T: ns, Sort: cur.Sort, GoT: cur.GoT}, cur.SetElem)
				st.heap["G:"+cd.Ghost] = w
				continue
			}
			if av.Sort != cur.Sort {
				panic(unsupported("records: sort mismatch for ghost " + cd.Ghost))
			}
			nv.T = av.T
		} else {
			cond := post.boolean(cd.Cond)
			nv.T = ite(cond, x.vc.arith("+", cur.T, x.vc.intLit(1), true), cur.T)
		}
		st.heap["G:"+cd.Ghost] = x.nameAlways(cd.Ghost, nv)
	}
}

// applySpawned: the callee is started in a goroutine, not called: its results are unknown, nothing it does is
// visible here; only the call-history ghosts move
func (x *Exec) applySpawned(st *State, pre *State, call *ast.CallExpr, sig *types.Signature, fnName string, c *Contract, names map[string]Val) []Val {
	rts := x.resultTypes(call)
	var results []Val
	for _, rt := range rts {
		results = append(results, x.havocVal(st, "spawned_"+fnName, rt))
	}
	x.bindResults(names, sig, results)
	post := x.specEnv(st, pre, names, c.PkgPath)
	x.evalLets(post, c)
	x.applyCounts(st, post, c)
	x.prog.usedContracts[x.fname+" -> "+c.Key+" [spawned]"] = true
	return results
}

func (x *Exec) evalLets(env *specEnv, c *Contract) {
	for _, l := range c.Lets {
		env.names[l.Name] = env.value(l.Expr)
	}
}

func (x *Exec) bindResults(names map[string]Val, sig *types.Signature, results []Val) {
	nonErr := 0
	for i := 0; i < sig.Results().Len() && i < len(results); i++ {
		r := sig.Results().At(i)
		if r.Name() != "" && r.Name() != "_" {
			names[r.Name()] = results[i]
		}
		names[fmt.Sprintf("res%d", i+1)] = results[i]
		if isErrorType(r.Type()) && i == sig.Results().Len()-1 {
			if _, taken := names["err"]; !taken || r.Name() == "" {
				names["err"] = results[i]
			}
		} else {
			nonErr++
			if nonErr == 1 {
				if _, taken := names["res"]; !taken || r.Name() == "" {
					names["res"] = results[i]
				}
			}
		}
	}
}

func isErrorType(t types.Type) bool {
	return types.TypeString(t, nil) == "error"
}

func (x *Exec) applyModifies(st *State, c *Contract) {
	for _, m := range c.Modifies {
		switch {
		case m == "*":
			x.havocAll(st, "call to "+c.Local+" (modifies *)")
		case strings.HasPrefix(m, "heap(") && strings.HasSuffix(m, ")"):
			tn := m[5 : len(m)-1]
			t := x.prog.resolveType(c.PkgPath, tn)
			if t == nil {
				panic(unsupported("modifies: unknown type " + tn))
			}
			hk, _ := x.heapKeyT(t)
			x.heapFor(st, t)
			x.havocKey(st, hk)
		default:
			if g, ok := x.prog.specs.Ghosts[m]; ok {
				x.ghostVal(st, g)
				x.havocKey(st, "G:"+m)
			} else if strings.Contains(m, ".") {
				// package-level variable pkg.Name
				k := strings.LastIndex(m, ".")
				path := x.prog.resolveQual(c.PkgPath, m[:k])
				key := "V:" + path + "." + m[k+1:]
				if p := x.prog.byPath[path]; p != nil {
					if obj, ok := p.Types.Scope().Lookup(m[k+1:]).(*types.Var); ok {
						x.lookupHeap(st, key, x.vc.sortOf(obj.Type()))
					}
				}
				x.havocKey(st, key)
			} else if p := x.prog.byPath[c.PkgPath]; p != nil && p.Types.Scope().Lookup(m) != nil {
				if obj, ok := p.Types.Scope().Lookup(m).(*types.Var); ok {
					key := "V:" + c.PkgPath + "." + m
					x.lookupHeap(st, key, x.vc.sortOf(obj.Type()))
					x.havocKey(st, key)
				}
			} else if strings.HasPrefix(m, "*") {
				// handled at the call site (applyContract)
			} else {
				panic(unsupported("modifies: unknown item " + m))
			}
		}
	}
}

func (x *Exec) ghostVal(st *State, g *GhostVar) Val {
	key := "G:" + g.Name
	if v, ok := st.heap[key]; ok {
		return v
	}
	srt, elem, got := x.prog.specSort(x.vc, g.PkgPath, g.Type)
	v := x.lookupHeap(st, key, srt)
	v.GoT = got
	iv := x.prog.tmpInit[x][key]
	iv.GoT = got
	if elem != "" {
		v = x.wrapSet(v, elem)
		iv = x.wrapSet(iv, elem)
	}
	// keep the typed/wrapped form in the tables
	st.heap[key] = v
	x.prog.tmpInit[x][key] = iv
	return v
}

// tryBoolean translates a clause; a clause that mentions identifiers unknown in this
// environment (the callee's locals) is reported as untranslatable instead of failing.
func (x *Exec) tryBoolean(env *specEnv, e *SExpr) (t string, ok bool) {
	defer func() {
		if r := recover(); r != nil {
			if u, isU := r.(unsupportedErr); isU && strings.Contains(u.msg, "unknown identifier") {
				t, ok = "", false
				return
			}
			panic(r)
		}
	}()
	return env.boolean(e), true
}

// fnValueContract: the assumed contract of a function-typed struct field (Type.field) or of a
// function-typed parameter of the function under verification (func.param).
func (x *Exec) fnValueContract(call *ast.CallExpr) *Contract {
	switch f := unparen(call.Fun).(type) {
	case *ast.SelectorExpr:
		sel := x.selOf(f)
		if sel == nil || sel.Kind() != types.FieldVal {
			return nil
		}
		t := sel.Recv()
		if p, ok := t.(*types.Pointer); ok {
			t = p.Elem()
		}
		n, ok := t.(*types.Named)
		if !ok || n.Obj().Pkg() == nil {
			return nil
		}
		return x.prog.specs.Contracts[n.Obj().Pkg().Path()+"."+n.Obj().Name()+"."+f.Sel.Name]
	case *ast.Ident:
		if x.contract == nil {
			return nil
		}
		base := x.contract.Local
		if k := strings.Index(base, "$"); k >= 0 {
			base = base[:k]
		}
		return x.prog.specs.Contracts[x.contract.PkgPath+"."+base+"."+f.Name]
	}
	return nil
}

// rawsOf: the raw (pre-conversion) argument values of this call as recorded while evaluating them
func rawsOf(x *Exec, call *ast.CallExpr, args []Val) []Val {
	if r, ok := x.rawByCall[call]; ok {
		return r
	}
	return x.rawArgs
}
