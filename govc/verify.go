package main

// verify.go: one function (or closure) against its contract -> a VC with named obligations.

import (
	"crypto/sha256"
	"fmt"
	"go/ast"
	"go/token"
	"go/types"
	"sort"
	"strings"

	"golang.org/x/tools/go/packages"
)

type FuncReport struct {
	Name      string   `json:"name"`
	Key       string   `json:"key"`
	File      string   `json:"file"`
	Line      int      `json:"line"`
	Kind      string   `json:"kind"`
	BodyHash  string   `json:"body_sha256"`
	Mode      string   `json:"integer_mode"`
	Dropped   []string `json:"dropped_or_abstracted"`
	Undecided string   `json:"undecided,omitempty"`
	Spawns    bool     `json:"spawns_goroutine,omitempty"`
	NObl      int      `json:"obligations"`
	Inlined   []string `json:"inlined_callees,omitempty"`
	Uses      []string `json:"contracts_used,omitempty"`
	// module functions called without a contract (everything is havocked at such a call)
	NoContract []string `json:"calls_without_contract,omitempty"`
}

type target struct {
	contract *Contract
	pkg      *packages.Package
	fn       *types.Func
	decl     *ast.FuncDecl
	lit      *ast.FuncLit
	outer    *ast.FuncDecl
}

// findTarget locates the code a func/closure contract is attached to.
func (p *Program) findTarget(c *Contract) (*target, error) {
	pk := p.byPath[c.PkgPath]
	if pk == nil {
		return nil, fmt.Errorf("package %s not loaded", c.PkgPath)
	}
	name := c.Local
	litN := 0
	if k := strings.Index(name, "$"); k >= 0 {
		fmt.Sscanf(name[k+1:], "%d", &litN)
		name = name[:k]
	}
	for fn, d := range p.decls {
		if p.declPkg[fn] != pk {
			continue
		}
		local := strings.TrimPrefix(funcKey(fn), pk.PkgPath+".")
		if local != name {
			continue
		}
		t := &target{contract: c, pkg: pk, fn: fn, decl: d}
		if c.Kind == "closure" {
			n := 0
			var found *ast.FuncLit
			ast.Inspect(d, func(nd ast.Node) bool {
				if l, ok := nd.(*ast.FuncLit); ok {
					n++
					if n == litN {
						found = l
					}
				}
				return true
			})
			if found == nil {
				return nil, fmt.Errorf("closure %d not found in %s", litN, name)
			}
			t.lit = found
			t.outer = d
		}
		return t, nil
	}
	return nil, fmt.Errorf("function %s not found in %s", name, c.PkgPath)
}

func (p *Program) displayName(pk *packages.Package, c *Contract) string {
	return pk.Name + "." + c.Local
}

// verifyFunc builds the VC of one target. An unsupportedErr makes it undecided.
func (p *Program) verifyFunc(t *target) (vc *VC, rep *FuncReport) {
	c := t.contract
	rep = &FuncReport{Name: p.displayName(t.pkg, c), Key: c.Key, Kind: c.Kind}
	vc = newVC(c.Opts["bv"])
	rep.Mode = "mathematical integers"
	if vc.bv {
		rep.Mode = "64-bit bit-vectors"
	}
	x := &Exec{prog: p, vc: vc, pkg: t.pkg, contract: c, fname: rep.Name, counts: map[string]int{}, boxed: map[types.Object]bool{}, safety: c.Opts["safety"], aliases: map[types.Object]*lval{}}
	var body *ast.BlockStmt
	var ftype *ast.FuncType
	var node ast.Node
	if t.lit != nil {
		body, ftype, node = t.lit.Body, t.lit.Type, t.lit
		x.sig = t.pkg.TypesInfo.TypeOf(t.lit).(*types.Signature)
	} else {
		body, ftype, node = t.decl.Body, t.decl.Type, t.decl
		x.sig = t.fn.Type().(*types.Signature)
	}
	pos := p.fset.Position(node.Pos())
	rep.File, rep.Line = strings.TrimPrefix(pos.Filename, p.repo+"/"), pos.Line
	rep.BodyHash = fmt.Sprintf("%x", sha256.Sum256([]byte(p.text(node))))
	defer func() {
		if r := recover(); r != nil {
			if u, ok := r.(unsupportedErr); ok {
				rep.Undecided = u.msg
				vc.obls = nil
				return
			}
			panic(r)
		}
	}()
	if body == nil {
		panic(unsupported("function has no body"))
	}
	x.body, x.ftype = body, ftype
	for o := range p.boxedIn(node) {
		x.boxed[o] = true
	}
	if t.outer != nil {
		for o := range p.boxedIn(t.outer) {
			x.boxed[o] = true
		}
	}
	st := &State{pc: "true", vars: map[types.Object]Val{}, heap: map[string]Val{}}
	x.entry = map[string]Val{}
	// the allocation frontier
	x.lookupHeap(st, "top", "Int")
	x.assume(st, fmt.Sprintf("(> %s 0)", st.heap["top"].T))
	// receiver and parameters
	paramObjs := map[string]types.Object{}
	bind := func(id *ast.Ident) {
		if id == nil || id.Name == "_" {
			return
		}
		obj := t.pkg.TypesInfo.Defs[id]
		if obj == nil {
			return
		}
		paramObjs[id.Name] = obj
		v := x.havocVal(st, id.Name, obj.Type())
		x.knownRef(st, v)
		vc.inputs = append(vc.inputs, v.T)
		x.entry[id.Name] = v
		x.entry["arg_"+id.Name] = v // also when a result name (res, err) hides the parameter's own name
		if x.boxed[obj] {
			x.setVar(st, obj, v)
		} else {
			st.vars[obj] = v
		}
	}
	if t.decl != nil && t.lit == nil && t.decl.Recv != nil {
		for _, f := range t.decl.Recv.List {
			for _, n := range f.Names {
				bind(n)
				x.entry["self"] = x.entry[n.Name]
			}
		}
	}
	for _, f := range ftype.Params.List {
		for _, n := range f.Names {
			bind(n)
		}
	}
	if t.lit != nil {
		// captured variables of a closure are unconstrained inputs
		seenCap := map[types.Object]bool{}
		ast.Inspect(t.lit.Body, func(n ast.Node) bool {
			id, ok := n.(*ast.Ident)
			if !ok {
				return true
			}
			v, ok := t.pkg.TypesInfo.Uses[id].(*types.Var)
			if !ok || v.IsField() || x.isGlobal(v) || seenCap[v] {
				return true
			}
			if v.Pos() >= t.lit.Pos() && v.Pos() <= t.lit.End() {
				return true
			}
			seenCap[v] = true
			cv := x.havocVal(st, v.Name(), v.Type())
			x.knownRef(st, cv)
			if x.boxed[v] {
				x.setVar(st, v, cv)
			} else {
				st.vars[v] = cv
			}
			return true
		})
	}
	// result holders
	if ftype.Results != nil {
		for _, f := range ftype.Results.List {
			for _, n := range f.Names {
				if obj, ok := t.pkg.TypesInfo.Defs[n].(*types.Var); ok {
					x.results = append(x.results, obj)
					srt := vc.sortOf(obj.Type())
					x.setVar(st, obj, Val{T: vc.zero(srt), Sort: srt, GoT: obj.Type()})
				}
			}
		}
	}
	if len(x.results) == 0 {
		for j := 0; j < x.sig.Results().Len(); j++ {
			x.results = append(x.results, types.NewVar(token.NoPos, t.pkg.Types, fmt.Sprintf("ret%d", j), x.sig.Results().At(j).Type()))
		}
	}
	x.old = st.clone()
	// preconditions
	pre := x.specEnv(st, x.old, x.entry, c.PkgPath)
	x.evalLets(pre, c)
	for _, rq := range c.Requires {
		x.assume(st, pre.boolean(rq.Expr))
	}
	// replay template (optional): its expressions are bound in the entry environment
	if p.verifDir != "" {
		if pl := loadReplayTemplate(p.verifDir, rep.Name); pl != nil {
			if x.bindReplay(pl, pre) {
				p.replayPlans[rep.Name] = pl
			} else {
				vc.note("replay template " + pl.File + " could not be bound (expression outside the contract language)")
			}
		}
	}
	// lemmas used: each is proved on its own (possibly over 64-bit vectors) and assumed here; in Int mode this
	// gives the uninterpreted bit operations the instances the proof needs
	for _, ln := range c.UsesLemmas {
		var lem *Lemma
		for _, l := range p.specs.Lemmas {
			if l.Name == ln && (l.PkgPath == c.PkgPath || lem == nil) {
				lem = l
			}
		}
		if lem == nil {
			panic(unsupported("uses: no lemma " + ln))
		}
		if !lem.Axiom && len(lem.Props) == 0 {
			panic(unsupported("uses: lemma " + ln + " is not claimed by any property, hence never proved"))
		}
		lenv := x.specEnv(st, x.old, nil, lem.PkgPath)
		x.assume(st, lenv.boolean(lem.Expr))
		vc.note("lemma " + ln + " assumed at entry (proved separately)")
	}
	// interface contracts this function implements: their requires are assumed, their ensures proved
	type implBinding struct {
		ic    *Contract
		names map[string]Val
	}
	var impls []implBinding
	for _, ik := range c.Implements {
		ic := p.specs.Contracts[ik]
		if ic == nil {
			panic(unsupported("implements: no contract " + ik))
		}
		names := map[string]Val{}
		i := 0
		for _, f := range ftype.Params.List {
			for _, n := range f.Names {
				pn := x.sig.Params().At(i).Name()
				if i < len(ic.Params) {
					pn = ic.Params[i]
				}
				if v, ok := x.entry[n.Name]; ok {
					names[pn] = v
				}
				i++
			}
			if len(f.Names) == 0 {
				i++
			}
		}
		if v, ok := x.entry["self"]; ok {
			names["self"] = v
		}
		ienv := x.specEnv(st, x.old, names, ic.PkgPath)
		for _, rq := range ic.Requires {
			x.assume(st, ienv.boolean(rq.Expr))
		}
		impls = append(impls, implBinding{ic, names})
	}
	entrySnap := st.clone()
	x.old = entrySnap
	// body
	f := x.execBlock(st, body.List)
	if f.normal != nil {
		var vals []Val
		for _, r := range x.results {
			vals = append(vals, x.getVar(f.normal, r))
		}
		x.finishReturn(f.normal, vals)
	}
	for l := range f.breaks {
		panic(unsupported("break escapes the function: label " + l))
	}
	for l, ss := range f.gotos {
		if len(ss) > 0 {
			panic(unsupported("goto " + l + ": backward jumps are outside the subset"))
		}
	}
	// postconditions on the merged return state
	var sts []*State
	for _, r := range x.returns {
		sts = append(sts, r.st)
	}
	final := x.merge(sts)
	if final == nil {
		// never returns normally: nothing to prove about results
		final = &State{pc: "false", vars: map[types.Object]Val{}, heap: map[string]Val{}}
	}
	var names map[string]Val
	var resVals []Val
	emitPosts := func(final *State, suffix string) {
	names = map[string]Val{}
	for k, v := range x.rngFinal {
		names[k] = v
	}
	for k, v := range x.entry {
		names[k] = v
	}
	// final_<param>: the value the parameter variable holds at the return (a map held in a value receiver or
	// parameter is written through the local copy; the caller sees those writes)
	for n, obj := range paramObjs {
		if _, ok := final.vars[obj]; ok || x.boxed[obj] {
			names["final_"+n] = x.getVar(final, obj)
		}
	}
	resVals = nil
	for _, r := range x.results {
		resVals = append(resVals, final.vars[r])
	}
	if len(x.returns) > 0 {
		x.bindResults(names, x.sig, resVals)
		// named results shadow parameters of the same name (cannot happen in Go) — nothing to do
	}
	post := x.specEnv(final, entrySnap, names, c.PkgPath)
	post.pos = body.Rbrace // top-level locals are visible in ensures: their value at the return (unconstrained where not yet declared)
	x.evalLets(post, c)
	var lemmaHyps []string
	for i, en := range c.Ensures {
		conj := p.expandConj(en.Expr, 0)
		for j, cj := range conj {
			g := post.boolean(cj)
			name := fmt.Sprintf("post.%d", i+1)
			if en.Label != "" {
				name = "post." + en.Label
			}
			if len(conj) > 1 {
				name += fmt.Sprintf(".%d", j+1)
			}
			if c.Opts["assume_post"] {
				// the postconditions are ASSUMED for callers (listed as such); the body is checked for everything else:
				// call-site assertions, preconditions of callees, loop clauses, safety
				continue
			}
			x.assertNamed(final, name+suffix, "post", g, exprText(cj), token.Position{Filename: en.File, Line: en.Line})
			if len(vc.obls) > 0 && len(lemmaHyps) > 0 {
				vc.obls[len(vc.obls)-1].Extra = append([]string{}, lemmaHyps...)
			}
			if strings.HasPrefix(en.Label, "lemma") {
				// a proved intermediate fact: available to the later clauses of this contract
				lemmaHyps = append(lemmaHyps, implies(final.pc, g))
			}
		}
	}
	}
	if c.Opts["split_returns"] && len(x.returns) > 1 {
		// one set of postcondition obligations per return statement (simpler queries)
		for k, r := range x.returns {
			emitPosts(r.st, fmt.Sprintf("@ret%d", k+1))
		}
		// names/resVals for the clauses below refer to the merged state
		names = map[string]Val{}
		for k, v := range x.entry {
			names[k] = v
		}
		resVals = nil
		for _, r := range x.results {
			resVals = append(resVals, final.vars[r])
		}
		if len(x.returns) > 0 {
			x.bindResults(names, x.sig, resVals)
		}
	} else {
		emitPosts(final, "")
	}
	for _, ib := range impls {
		names := map[string]Val{}
		for k, v := range ib.names {
			names[k] = v
		}
		if len(x.returns) > 0 {
			x.bindResults(names, x.sig, resVals)
		}
		ienv := x.specEnv(final, entrySnap, names, ib.ic.PkgPath)
		for i, en := range ib.ic.Ensures {
			for j, cj := range splitConj(en.Expr) {
				name := fmt.Sprintf("post.impl(%s).%d", ib.ic.Local, i+1)
				if j > 0 {
					name += fmt.Sprintf(".%d", j+1)
				}
				x.assertNamed(final, name, "post", ienv.boolean(cj), "implements "+ib.ic.Local+": "+exprText(cj), token.Position{Filename: en.File, Line: en.Line})
			}
		}
	}
	// an at_call clause that no call of this function is checked against says nothing: the contract is stale (or names
	// the callee wrongly)
	for key := range c.CallAsserts {
		if strings.HasPrefix(key, "send:") {
			continue
		}
		if x.counts["atcall:"+key] == 0 {
			panic(unsupported("at_call " + key + ": the function makes no call of a function under that contract name (clause would be vacuous)"))
		}
		for i, ca := range c.CallAsserts[key] {
			if x.counts[fmt.Sprintf("atcall-eval:%s#%d", key, i)] == 0 {
				panic(unsupported("at_call " + key + ": clause in scope at no call site: " + trunc(ca.Src, 80)))
			}
		}
	}
	// frame: everything outside the modifies clause is unchanged (for objects that existed at entry)
	if len(x.returns) > 0 && !c.Opts["lockhavoc"] && !c.Opts["assume_post"] {
		// (with lockhavoc the guarded fields change "by themselves" at lock acquisition: no frame claim)
		x.frameObligations(final, entrySnap, c)
	}
	// vacuity probe: the end of the function must be reachable under the preconditions
	if len(x.returns) > 0 {
		o := &Obl{Name: rep.Name + "#vacuity.exit", Class: "vacuity", PC: final.pc, Goal: "false", Func: rep.Name, Vacuity: true, Desc: "some return is reachable under the preconditions and callee contracts"}
		vc.addObl(o)
	}
	if c.Opts["trusted"] && c.Opts["own"] {
		// functional contract assumed, body checked for lock ownership only
		var keep []*Obl
		for _, o := range vc.obls {
			if o.Class == "own" {
				keep = append(keep, o)
			}
		}
		vc.obls = keep
	}
	rep.Spawns = x.spawns
	for n := range vc.notes {
		rep.Dropped = append(rep.Dropped, n)
	}
	if d := p.dropped[rep.Name]; d > 0 {
		rep.Dropped = append(rep.Dropped, fmt.Sprintf("%d logging/tracing/metrics calls dropped", d))
	}
	sort.Strings(rep.Dropped)
	for k := range p.inlined {
		if strings.HasPrefix(k, rep.Name+" <- ") {
			rep.Inlined = append(rep.Inlined, strings.TrimPrefix(k, rep.Name+" <- "))
		}
	}
	sort.Strings(rep.Inlined)
	for k := range p.usedContracts {
		if strings.HasPrefix(k, rep.Name+" -> ") {
			rep.Uses = append(rep.Uses, strings.TrimPrefix(k, rep.Name+" -> "))
		}
	}
	sort.Strings(rep.Uses)
	for k := range p.noContract {
		if strings.HasPrefix(k, rep.Name+" => ") {
			rep.NoContract = append(rep.NoContract, strings.TrimPrefix(k, rep.Name+" => "))
		}
	}
	sort.Strings(rep.NoContract)
	rep.NObl = 0
	for _, o := range vc.obls {
		if !o.Vacuity {
			rep.NObl++
		}
	}
	delete(p.tmpInit, x)
	delete(p.tmpGlobals, x)
	return vc, rep
}

func stripParen(e *SExpr) *SExpr {
	for e.Op == "paren" {
		e = e.Args[0]
	}
	return e
}

// lockEvent: bookkeeping of held locks; on acquisition the fields the lock guards are havocked
// (another goroutine may have changed them while the lock was not held)
func (x *Exec) lockEvent(st *State, lockText, op string, call *ast.CallExpr) {
	switch op {
	case "Lock", "RLock":
		if x.contract != nil && x.contract.Opts["own"] && len(x.inRes) == 0 && x.dry == 0 {
			x.counts["lock.reacquire"]++
			goal := "true"
			if st.held[lockText] {
				goal = "false"
			}
			x.assertNamed(st, fmt.Sprintf("lock.reacquire.%d", x.counts["lock.reacquire"]), "lock", goal,
				"no "+op+" of "+lockText+" while this function already holds it (sync mutexes are not reentrant: self-deadlock, or deadlock with a waiting writer)", x.posn(call.Pos()))
		}
		st.held[lockText] = true
		if op == "Lock" {
			st.held[lockText+"#w"] = true
		}
		x.onAcquire(st, lockText, call)
	case "Unlock", "RUnlock":
		delete(st.held, lockText)
		delete(st.held, lockText+"#w")
	}
}

// guardsOf: the guard declarations of the struct type t (pointer or value)
func (x *Exec) guardsOf(t types.Type) []*Guard {
	if p, ok := t.Underlying().(*types.Pointer); ok {
		t = p.Elem()
	}
	n, ok := t.(*types.Named)
	if !ok || n.Obj().Pkg() == nil {
		return nil
	}
	return x.prog.specs.Guards[n.Obj().Pkg().Path()+"."+n.Obj().Name()]
}

func (x *Exec) onAcquire(st *State, lockText string, call *ast.CallExpr) {
	// only for functions whose contract asks for the concurrent reading of lock acquisition
	if x.contract == nil || !x.contract.Opts["lockhavoc"] {
		return
	}
	selx, ok := unparen(call.Fun).(*ast.SelectorExpr) // <base>.<mu>.Lock
	if !ok {
		return
	}
	musel, ok := unparen(selx.X).(*ast.SelectorExpr)
	if !ok {
		return
	}
	bt := x.typeOf(musel.X)
	for _, g := range x.guardsOf(bt) {
		if g.Mu != musel.Sel.Name {
			continue
		}
		// havoc every guarded field of the object
		pt, isPtr := bt.Underlying().(*types.Pointer)
		if !isPtr {
			continue
		}
		base := x.ev(st, musel.X)
		cur := x.deref(st, base, pt.Elem())
		inf := x.vc.info(cur.Sort)
		if inf == nil || inf.Kind != kStruct {
			continue
		}
		nv := cur
		for _, f := range inf.Fields {
			if g.Fields[f.Name] {
				fv := x.havocVal(st, "locked_"+f.Name, f.GoT)
				nv = Val{T: x.vc.updField(nv, f.Name, fv.T), Sort: cur.Sort, GoT: cur.GoT}
				nv = x.name("acq", nv)
			}
		}
		x.storeRef(st, base, pt.Elem(), nv)
		x.vc.note("fields guarded by " + lockText + " havocked at its acquisition (other goroutines may have changed them)")
	}
}

// ownCheck: a read (or write) of a guarded field requires the guarding lock (write lock for writes)
func (x *Exec) ownCheck(st *State, baseExpr ast.Expr, field string, write bool, pos token.Pos) {
	if x.contract == nil || !x.contract.Opts["own"] || x.dry > 0 || len(x.inRes) > 0 {
		return
	}
	bt := x.typeOf(baseExpr)
	gs := x.guardsOf(bt)
	if write && len(gs) > 0 {
		guarded := false
		for _, g := range gs {
			if g.Fields[field] {
				guarded = true
			}
		}
		if !guarded {
			// fields not named by a guards clause are immutable after construction
			x.assert(st, "own", "false", fmt.Sprintf("write of %s.%s, a field no lock guards (immutable after construction)", x.prog.text(baseExpr), field), pos)
			return
		}
	}
	for _, g := range gs {
		if !g.Fields[field] {
			continue
		}
		lockText := x.prog.text(baseExpr) + "." + g.Mu
		okHeld := st.held != nil && st.held[lockText]
		if write {
			okHeld = okHeld && st.held[lockText+"#w"]
		}
		kind := "read"
		if write {
			kind = "write"
		}
		goal := "false"
		if okHeld {
			goal = "true"
		}
		x.assert(st, "own", goal, fmt.Sprintf("%s of %s.%s with %s held", kind, x.prog.text(baseExpr), field, lockText), pos)
	}
}


// expandConj splits a clause into independently provable conjuncts: through &&, through the
// consequent of ==>, and through calls of non-recursive spec functions whose body is a conjunction.
func (p *Program) expandConj(e *SExpr, depth int) []*SExpr {
	e = stripParen(e)
	if depth > 6 {
		return []*SExpr{e}
	}
	switch {
	case e.Op == "bin" && e.Name == "&&":
		return append(p.expandConj(e.Args[0], depth), p.expandConj(e.Args[1], depth)...)
	case e.Op == "bin" && e.Name == "==>":
		rs := p.expandConj(e.Args[1], depth)
		if len(rs) == 1 {
			return []*SExpr{e}
		}
		var out []*SExpr
		for _, r := range rs {
			out = append(out, &SExpr{Op: "bin", Name: "==>", Args: []*SExpr{e.Args[0], r}})
		}
		return out
	case e.Op == "call" && e.Args[0].Op == "id":
		sf, ok := p.specs.SpecFuncs[e.Args[0].Name]
		if !ok || sf.Rec || len(sf.Params) != len(e.Args)-1 {
			return []*SExpr{e}
		}
		body := stripParen(sf.Body)
		if !(body.Op == "bin" && body.Name == "&&") {
			return []*SExpr{e}
		}
		sub := map[string]*SExpr{}
		for i, prm := range sf.Params {
			sub[prm.Name] = &SExpr{Op: "paren", Args: []*SExpr{e.Args[i+1]}}
		}
		return p.expandConj(substSExpr(body, sub), depth+1)
	}
	return []*SExpr{e}
}

func substSExpr(e *SExpr, sub map[string]*SExpr) *SExpr {
	if e == nil {
		return nil
	}
	if e.Op == "id" {
		if r, ok := sub[e.Name]; ok {
			return r
		}
		return e
	}
	n := *e
	if e.Op == "quant" {
		// binders shadow
		inner := map[string]*SExpr{}
		for k, v := range sub {
			inner[k] = v
		}
		for _, b := range e.Binders {
			delete(inner, b.Name)
		}
		sub = inner
	}
	n.Args = make([]*SExpr, len(e.Args))
	for i, a := range e.Args {
		if e.Op == "call" && i == 0 {
			n.Args[i] = a // function name position
			continue
		}
		n.Args[i] = substSExpr(a, sub)
	}
	return &n
}

// frameObligations: one obligation per heap / ghost / global the function may have touched that
// its modifies clause does not list: the final value equals the entry value (heaps: on every
// reference that existed at entry).
func (x *Exec) frameObligations(final, entry *State, c *Contract) {
	covered := map[string]bool{}
	all := false
	for _, m := range c.Modifies {
		switch {
		case m == "*":
			all = true
		case strings.HasPrefix(m, "heap(") && strings.HasSuffix(m, ")"):
			if t := x.prog.resolveType(c.PkgPath, m[5:len(m)-1]); t != nil {
				hk, _ := x.heapKeyT(t)
				covered[hk] = true
			}
		case strings.HasPrefix(m, "*") && strings.Contains(m, "[]."):
			// *param[].Field: the objects the Field pointers of the elements of param refer to, and nothing else of that
			// type: the heap is covered here, and the precise claim is an obligation of its own (below)
			if pn, fld, elemT, ok := x.elemFieldItem(m, c); ok {
				hk, _ := x.heapKeyT(elemT)
				covered[hk] = true
				src := fmt.Sprintf("forall d_f *%s :: !fresh(d_f) && (forall i_f int :: 0 <= i_f && i_f < len(%s) ==> %s[i_f].%s != d_f) ==> *d_f == old(*d_f)",
					types.TypeString(elemT, func(p *types.Package) string { return p.Name() }), pn, pn, fld)
				if e, err := parseSpecExpr(src); err == nil {
					names := map[string]Val{}
					for k, v := range x.entry {
						names[k] = v
					}
					env := x.specEnv(final, entry, names, c.PkgPath)
					x.assertNamed(final, "frame.elems("+sanitize(m)+")", "frame", env.boolean(e),
						"only what "+m+" lists is written: "+src, token.Position{Filename: c.File, Line: c.Line})
				} else {
					panic(unsupported("modifies " + m + ": " + err.Error()))
				}
			} else {
				all = true
			}
		case strings.HasPrefix(m, "*"):
			// *param: any heap may be the pointee; frames are not generated for extern/interface contracts anyway
			all = true
		default:
			covered["G:"+m] = true
			if strings.Contains(m, ".") {
				k := strings.LastIndex(m, ".")
				covered["V:"+x.prog.resolveQual(c.PkgPath, m[:k])+"."+m[k+1:]] = true
			} else {
				covered["V:"+c.PkgPath+"."+m] = true
			}
		}
	}
	if all {
		return
	}
	keys := map[string]bool{}
	for k := range final.heap {
		keys[k] = true
	}
	var ks []string
	for k := range keys {
		ks = append(ks, k)
	}
	sort.Strings(ks)
	top0 := x.lookupHeap(entry, "top", "Int")
	for _, k := range ks {
		if k == "top" || strings.HasPrefix(k, "#") || strings.HasPrefix(k, "G:$") || covered[k] {
			continue
		}
		fv := final.heap[k]
		iv, ok := entry.heap[k]
		if !ok {
			iv, ok = x.prog.tmpInit[x][k]
			if !ok {
				continue
			}
		}
		if fv.T == iv.T {
			continue // syntactically untouched
		}
		if strings.HasPrefix(k, "H:") {
			// objects of an unexported struct type of another package cannot be observed by this
			// function's callers: no frame obligation (the owning package states its own frames)
			if inf := x.vc.info(strings.SplitN(strings.TrimPrefix(k, "H:"), "@", 2)[0]); inf != nil && inf.GoT != nil && !strings.Contains(k, "@") {
				if n, ok := inf.GoT.(*types.Named); ok && !n.Obj().Exported() && n.Obj().Pkg() != nil && n.Obj().Pkg().Path() != c.PkgPath {
					continue
				}
			}
		}
		var goal string
		if strings.HasPrefix(k, "H:") {
			goal = fmt.Sprintf("(forall ((r!f Int)) (=> (and (>= r!f 0) (< r!f %s)) (= (select %s r!f) (select %s r!f))))", top0.T, fv.T, iv.T)
		} else {
			goal = eq(fv.T, iv.T)
		}
		x.assertNamed(final, "frame."+sanitize(strings.TrimPrefix(strings.TrimPrefix(strings.TrimPrefix(k, "H:"), "G:"), "V:")), "frame", goal,
			"not listed in modifies, hence unchanged: "+k, token.Position{Filename: c.File, Line: c.Line})
	}
}

// acquiredOnReceiver: the mutex fields of its receiver that fn (or a method it calls on the same receiver)
// locks. Syntactic, no contract needed: used for the no-reentrancy obligation at call sites.
func (p *Program) acquiredOnReceiver(fn *types.Func, depth int) map[string]bool {
	if p.acqMemo == nil {
		p.acqMemo = map[*types.Func]map[string]bool{}
	}
	if m, ok := p.acqMemo[fn]; ok {
		return m
	}
	out := map[string]bool{}
	p.acqMemo[fn] = out
	fd := p.funcDecl(fn)
	if fd == nil || fd.Body == nil || fd.Recv == nil || len(fd.Recv.List) == 0 || len(fd.Recv.List[0].Names) == 0 || depth > 4 {
		return out
	}
	recv := fd.Recv.List[0].Names[0].Name
	pk := p.declPkg[fn]
	ast.Inspect(fd.Body, func(n ast.Node) bool {
		if _, isLit := n.(*ast.FuncLit); isLit {
			return false // closures (goroutines, deferred work) run on their own
		}
		call, ok := n.(*ast.CallExpr)
		if !ok {
			return true
		}
		sel, ok := unparen(call.Fun).(*ast.SelectorExpr)
		if !ok {
			return true
		}
		if inner, ok := unparen(sel.X).(*ast.SelectorExpr); ok {
			if id, ok := unparen(inner.X).(*ast.Ident); ok && id.Name == recv && (sel.Sel.Name == "Lock" || sel.Sel.Name == "RLock") {
				out[inner.Sel.Name] = true
			}
		}
		if id, ok := unparen(sel.X).(*ast.Ident); ok && id.Name == recv && pk != nil {
			if callee, ok := pk.TypesInfo.Uses[sel.Sel].(*types.Func); ok {
				for k := range p.acquiredOnReceiver(callee, depth+1) {
					out[k] = true
				}
			}
		}
		return true
	})
	return out
}

// elemFieldItem parses the modifies item *param[].Field of contract c (of the function under verification, or of a
// callee whose signature is sig): the parameter name, the field name and the type the field points to.
func (x *Exec) elemFieldItem(m string, c *Contract) (param, field string, pointee types.Type, ok bool) {
	return x.prog.elemFieldItemSig(m, x.sig)
}

func (p *Program) elemFieldItemSig(m string, sig *types.Signature) (param, field string, pointee types.Type, ok bool) {
	body := strings.TrimPrefix(m, "*")
	k := strings.Index(body, "[].")
	if k < 0 || sig == nil {
		return
	}
	param, field = body[:k], body[k+3:]
	for i := 0; i < sig.Params().Len(); i++ {
		pv := sig.Params().At(i)
		if pv.Name() != param {
			continue
		}
		sl, isSl := pv.Type().Underlying().(*types.Slice)
		if !isSl {
			return
		}
		et := sl.Elem()
		if pt, isPtr := et.Underlying().(*types.Pointer); isPtr {
			et = pt.Elem()
		}
		stt, isSt := et.Underlying().(*types.Struct)
		if !isSt {
			return
		}
		for j := 0; j < stt.NumFields(); j++ {
			if stt.Field(j).Name() == field {
				if fp, isPtr := stt.Field(j).Type().Underlying().(*types.Pointer); isPtr {
					return param, field, fp.Elem(), true
				}
			}
		}
	}
	return
}
