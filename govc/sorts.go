package main

// sorts.go: mapping of Go types to SMT sorts (see DESIGN.md §2.4).

import (
	"fmt"
	"go/types"
	"strings"
)

type sortKind int

const (
	kPrim sortKind = iota
	kStruct
	kSlice
	kMap
	kOpaque
	kArray
)

type fieldInfo struct {
	Name string
	Sort string
	GoT  types.Type
	Embedded bool
}

type sortInfo struct {
	Kind   sortKind
	Name   string
	Elem   string // slice/map value/array elem sort
	ElemT  types.Type
	Key    string // map key sort
	KeyT   types.Type
	Fields []fieldInfo
	GoT    types.Type
}

type sortReg struct {
	info    map[string]*sortInfo
	byType  map[string]string // types.Type string -> sort
	pending map[string]bool
}

func (vc *VC) reg() *sortReg {
	if vc.sreg == nil {
		vc.sreg = &sortReg{info: map[string]*sortInfo{}, byType: map[string]string{}, pending: map[string]bool{}}
	}
	return vc.sreg
}

func isUnsigned(t types.Type) bool {
	if b, ok := t.Underlying().(*types.Basic); ok {
		return b.Info()&types.IsUnsigned != 0
	}
	return false
}

func isInteger(t types.Type) bool {
	if b, ok := t.Underlying().(*types.Basic); ok {
		return b.Info()&types.IsInteger != 0
	}
	return false
}

func typeKey(t types.Type) string {
	return types.TypeString(t, nil)
}

// sortOf returns the SMT sort of a Go type, declaring datatypes as needed.
func (vc *VC) sortOf(t types.Type) string {
	r := vc.reg()
	key := typeKey(t)
	if s, ok := r.byType[key]; ok {
		return s
	}
	s := vc.sortOf1(t, key)
	r.byType[key] = s
	return s
}

var opaqueInts = map[string]bool{
	"time.Time": true,
}

func (vc *VC) sortOf1(t types.Type, key string) string {
	r := vc.reg()
	switch key {
	case "time.Time":
		return vc.intSort()
	case "github.com/ipfs/go-cid.Cid":
		vc.declSort("Cid")
		vc.declConst("cid_undef", "Cid")
		r.info["Cid"] = &sortInfo{Kind: kOpaque, Name: "Cid", GoT: t}
		return "Cid"
	case "sync.Mutex", "sync.RWMutex":
		return vc.intSort()
	case "sync.Map":
		// modelled as the set of present keys (values are not tracked)
		vc.opaqueSort("I_any", types.NewInterfaceType(nil, nil))
		return "(Array I_any Bool)"
	}
	switch u := t.(type) {
	case *types.Named:
		switch uu := u.Underlying().(type) {
		case *types.Struct:
			if !vc.modelStruct(u, uu) {
				return vc.opaqueSort("O_"+sanitize(key), t)
			}
			return vc.structSort(t, uu, "S_"+sanitize(key))
		case *types.Interface:
			return vc.opaqueSort("I_"+sanitize(key), t)
		default:
			return vc.sortOf(u.Underlying())
		}
	case *types.Alias:
		return vc.sortOf(types.Unalias(t))
	case *types.Basic:
		switch {
		case u.Info()&types.IsInteger != 0:
			return vc.intSort()
		case u.Info()&types.IsBoolean != 0:
			return "Bool"
		case u.Info()&types.IsString != 0:
			return "Str"
		case u.Info()&types.IsFloat != 0:
			return "Real"
		case u.Kind() == types.UntypedNil:
			return "Nil"
		case u.Kind() == types.UnsafePointer:
			return vc.intSort()
		}
		return vc.opaqueSort("O_"+sanitize(key), t)
	case *types.Pointer:
		// all pointers are references (integers), nil = 0; make sure the pointee's sort exists
		if !r.pending[typeKey(u.Elem())] {
			vc.sortOf(u.Elem())
		}
		return "Int"
	case *types.Struct:
		return vc.structSort(t, u, fmt.Sprintf("S_anon%d", len(r.info)))
	case *types.Slice:
		es := vc.sortOf(u.Elem())
		name := "Sl_" + sanitize(es)
		if _, ok := r.info[name]; !ok {
			r.info[name] = &sortInfo{Kind: kSlice, Name: name, Elem: es, ElemT: u.Elem(), GoT: t}
			vc.declRaw("sort:"+name, fmt.Sprintf("(declare-datatypes ((%s 0)) (((mk_%s (%s_arr (Array %s %s)) (%s_len %s) (%s_nil Bool)))))",
				name, name, name, vc.intSort(), es, name, vc.intSort(), name))
		}
		return name
	case *types.Array:
		es := vc.sortOf(u.Elem())
		name := fmt.Sprintf("(Array %s %s)", vc.intSort(), es)
		r.info[name] = &sortInfo{Kind: kArray, Name: name, Elem: es, ElemT: u.Elem(), GoT: t}
		return name
	case *types.Map:
		ks := vc.sortOf(u.Key())
		es := vc.sortOf(u.Elem())
		name := "M_" + sanitize(ks) + "_" + sanitize(es)
		if _, ok := r.info[name]; !ok {
			r.info[name] = &sortInfo{Kind: kMap, Name: name, Elem: es, ElemT: u.Elem(), Key: ks, KeyT: u.Key(), GoT: t}
			vc.declRaw("sort:"+name, fmt.Sprintf("(declare-datatypes ((%s 0)) (((mk_%s (%s_dom (Array %s Bool)) (%s_val (Array %s %s)) (%s_card %s) (%s_nil Bool)))))",
				name, name, name, ks, name, ks, es, name, vc.intSort(), name))
		}
		return name
	case *types.Interface:
		if u.NumMethods() == 0 {
			return vc.opaqueSort("I_any", t)
		}
		return vc.opaqueSort("I_"+sanitize(key), t)
	case *types.Signature:
		return vc.opaqueSort("Fn", t)
	case *types.Chan:
		return vc.opaqueSort("Ch_"+sanitize(vc.sortOf(u.Elem())), t)
	case *types.Tuple:
		return "Tuple"
	case *types.TypeParam:
		return vc.opaqueSort("O_tparam", t)
	}
	return vc.opaqueSort("O_"+sanitize(key), t)
}

func (vc *VC) opaqueSort(name string, t types.Type) string {
	r := vc.reg()
	if len(name) > 80 {
		name = name[:80]
	}
	if _, ok := r.info[name]; !ok {
		vc.declSort(name)
		vc.declConst("nil_"+name, name)
		r.info[name] = &sortInfo{Kind: kOpaque, Name: name, GoT: t}
	}
	return name
}

func (vc *VC) structSort(t types.Type, st *types.Struct, name string) string {
	r := vc.reg()
	if len(name) > 90 {
		name = name[:90]
	}
	if _, ok := r.info[name]; ok {
		return name
	}
	key := typeKey(t)
	if r.pending[key] {
		// recursive by value (through slices/maps): abstract the inner occurrence
		return vc.opaqueSort("O_rec_"+sanitize(key), t)
	}
	r.pending[key] = true
	defer delete(r.pending, key)
	inf := &sortInfo{Kind: kStruct, Name: name, GoT: t}
	var parts []string
	for i := 0; i < st.NumFields(); i++ {
		f := st.Field(i)
		fs := vc.sortOf(f.Type())
		fname := f.Name()
		if fname == "_" {
			fname = fmt.Sprintf("_blank%d", i)
		}
		inf.Fields = append(inf.Fields, fieldInfo{Name: fname, Sort: fs, GoT: f.Type(), Embedded: f.Embedded()})
		parts = append(parts, fmt.Sprintf("(%s__%s %s)", name, sanitize(fname), fs))
	}
	r.info[name] = inf
	if len(parts) == 0 {
		vc.declRaw("sort:"+name, fmt.Sprintf("(declare-datatypes ((%s 0)) (((mk_%s))))", name, name))
	} else {
		vc.declRaw("sort:"+name, fmt.Sprintf("(declare-datatypes ((%s 0)) (((mk_%s %s))))", name, name, strings.Join(parts, " ")))
	}
	return name
}

// modelStruct: structs of the module are datatypes; library structs only when small and fully exported.
func (vc *VC) modelStruct(n *types.Named, st *types.Struct) bool {
	if n.Obj().Pkg() == nil {
		return false
	}
	if strings.HasPrefix(n.Obj().Pkg().Path(), modulePath) {
		return true
	}
	if st.NumFields() > 12 {
		return false
	}
	for i := 0; i < st.NumFields(); i++ {
		if !st.Field(i).Exported() {
			return false
		}
	}
	return true
}

var modulePath = "github.com/ipfs/ipfs-cluster"

func (vc *VC) info(sort string) *sortInfo {
	return vc.reg().info[sort]
}

// zero value of a sort
func (vc *VC) zero(sort string) string {
	switch sort {
	case "Int":
		return "0"
	case "(_ BitVec 64)":
		return "(_ bv0 64)"
	case "Bool":
		return "false"
	case "Str":
		return "str_empty"
	case "Real":
		return "0.0"
	case "Cid":
		return "cid_undef"
	}
	inf := vc.info(sort)
	if inf == nil {
		if strings.HasPrefix(sort, "(Array ") {
			// generic array: constant array of the zero of the element sort is not derivable here
			n := vc.fresh("zeroarr", sort)
			return n
		}
		panic(unsupported("zero of sort " + sort))
	}
	switch inf.Kind {
	case kOpaque:
		if sort == "Cid" {
			return "cid_undef"
		}
		return "nil_" + sort
	case kStruct:
		if len(inf.Fields) == 0 {
			return "mk_" + sort
		}
		var parts []string
		for _, f := range inf.Fields {
			parts = append(parts, vc.zero(f.Sort))
		}
		return fmt.Sprintf("(mk_%s %s)", sort, strings.Join(parts, " "))
	case kSlice:
		return fmt.Sprintf("(mk_%s %s %s true)", sort, vc.constArr(vc.intSort(), inf.Elem), vc.intLit(0))
	case kArray:
		return vc.constArr(vc.intSort(), inf.Elem)
	case kMap:
		return fmt.Sprintf("(mk_%s ((as const (Array %s Bool)) false) %s %s true)", sort, inf.Key, vc.constArr(inf.Key, inf.Elem), vc.intLit(0))
	}
	panic(unsupported("zero of sort " + sort))
}

// constArr: an array whose every element is the zero value of elem. SMT-LIB constant arrays need a
// value; for zero terms that are uninterpreted constants (strings, CIDs, nil of opaque sorts) a named
// array with a defining axiom is used instead (cvc5 rejects non-value constant arrays).
func (vc *VC) constArr(key, elem string) string {
	z := vc.zero(elem)
	if !strings.ContainsAny(z, "abcdefghijklmnopqrstuvwxyz") || z == "false" || z == "true" {
		return fmt.Sprintf("((as const (Array %s %s)) %s)", key, elem, z)
	}
	simple := true
	for _, w := range []string{"str_empty", "cid_undef", "nil_", "zeroarr", "zarr_"} {
		if strings.Contains(z, w) {
			simple = false
		}
	}
	if simple {
		return fmt.Sprintf("((as const (Array %s %s)) %s)", key, elem, z)
	}
	name := "zarr_" + sanitize(key) + "_" + sanitize(elem)
	if !vc.declared["const:"+name] {
		vc.declConst(name, fmt.Sprintf("(Array %s %s)", key, elem))
		vc.fact(fmt.Sprintf("(forall ((i!z %s)) (! (= (select %s i!z) %s) :pattern ((select %s i!z))))", key, name, z, name))
	}
	return name
}

// emptyMap: a non-nil empty map of the given sort
func (vc *VC) emptyMap(sort string) string {
	inf := vc.info(sort)
	return fmt.Sprintf("(mk_%s ((as const (Array %s Bool)) false) %s %s false)", sort, inf.Key, vc.constArr(inf.Key, inf.Elem), vc.intLit(0))
}

// emptySlice: a non-nil empty slice
func (vc *VC) emptySlice(sort string) string {
	inf := vc.info(sort)
	return fmt.Sprintf("(mk_%s %s %s false)", sort, vc.constArr(vc.intSort(), inf.Elem), vc.intLit(0))
}

// nilTerm: the nil of a sort (pointer, slice, map, interface, func, chan)
func (vc *VC) nilTerm(sort string) string {
	return vc.zero(sort)
}

// isNil: term testing v for nil
func (vc *VC) isNil(v Val) string {
	inf := vc.info(v.Sort)
	if inf != nil {
		switch inf.Kind {
		case kSlice, kMap:
			return fmt.Sprintf("(%s_nil %s)", v.Sort, v.T)
		}
	}
	return eq(v.T, vc.zero(v.Sort))
}

func opaqueFieldName(t types.Type, field string) string {
	name := "fld_" + sanitize(typeKey(t)) + "__" + sanitize(field)
	if len(name) > 120 {
		name = name[:120]
	}
	return name
}

// field selection on a struct value
func (vc *VC) selField(v Val, name string) (Val, bool) {
	inf := vc.info(v.Sort)
	if inf == nil || inf.Kind != kStruct {
		return Val{}, false
	}
	for _, f := range inf.Fields {
		if f.Name == name {
			return Val{T: fmt.Sprintf("(%s__%s %s)", v.Sort, sanitize(name), v.T), Sort: f.Sort, GoT: f.GoT}, true
		}
	}
	return Val{}, false
}

// updField returns the struct value v with field name replaced by nv.
func (vc *VC) updField(v Val, name string, nv string) string {
	inf := vc.info(v.Sort)
	if inf == nil || inf.Kind != kStruct {
		// opaque (library) struct: a fresh struct value whose uninterpreted field functions agree with the
		// old value everywhere except the written field
		if gt, ok := v.GoT.(types.Type); ok && gt != nil {
			if stt, ok := gt.Underlying().(*types.Struct); ok {
				nc := vc.fresh("opq", v.Sort)
				found := false
				for i := 0; i < stt.NumFields(); i++ {
					f := stt.Field(i)
					fn := opaqueFieldName(gt, f.Name())
					fs := vc.sortOf(f.Type())
					vc.declFun(fn, []string{v.Sort}, fs)
					if f.Name() == name {
						found = true
						vc.termFact(eq(fmt.Sprintf("(%s %s)", fn, nc), nv))
					} else {
						vc.termFact(eq(fmt.Sprintf("(%s %s)", fn, nc), fmt.Sprintf("(%s %s)", fn, v.T)))
					}
				}
				if found {
					return nc
				}
			}
		}
		panic(unsupported("write to field " + name + " of an opaque (library) struct"))
	}
	var parts []string
	for _, f := range inf.Fields {
		if f.Name == name {
			parts = append(parts, nv)
		} else {
			parts = append(parts, fmt.Sprintf("(%s__%s %s)", v.Sort, sanitize(f.Name), v.T))
		}
	}
	return fmt.Sprintf("(mk_%s %s)", v.Sort, strings.Join(parts, " "))
}

func (vc *VC) slLen(v Val) string {
	t := fmt.Sprintf("(%s_len %s)", v.Sort, v.T)
	return t
}

func (vc *VC) slArr(v Val) string { return fmt.Sprintf("(%s_arr %s)", v.Sort, v.T) }

func (vc *VC) slIndex(v Val, i string) Val {
	inf := vc.info(v.Sort)
	et := inf.ElemT
	if t, ok := v.GoT.(types.Type); ok && t != nil {
		if st, ok := t.Underlying().(*types.Slice); ok {
			et = st.Elem()
		}
	}
	return Val{T: fmt.Sprintf("(select %s %s)", vc.slArr(v), i), Sort: inf.Elem, GoT: et}
}

func (vc *VC) mkSlice(sort, arr, ln, isnil string) string {
	return fmt.Sprintf("(mk_%s %s %s %s)", sort, arr, ln, isnil)
}

func (vc *VC) mapDom(v Val, k string) string {
	return fmt.Sprintf("(select (%s_dom %s) %s)", v.Sort, v.T, k)
}

func (vc *VC) mapVal(v Val, k string) Val {
	inf := vc.info(v.Sort)
	et := inf.ElemT
	if t, ok := v.GoT.(types.Type); ok && t != nil {
		if mt, ok := t.Underlying().(*types.Map); ok {
			et = mt.Elem()
		}
	}
	return Val{T: fmt.Sprintf("(select (%s_val %s) %s)", v.Sort, v.T, k), Sort: inf.Elem, GoT: et}
}

func (vc *VC) mapCard(v Val) string { return fmt.Sprintf("(%s_card %s)", v.Sort, v.T) }

// mapStore: m[k] = x
func (vc *VC) mapStore(m Val, k, x string) string {
	one := vc.intLit(1)
	return fmt.Sprintf("(mk_%s (store (%s_dom %s) %s true) (store (%s_val %s) %s %s) %s false)",
		m.Sort, m.Sort, m.T, k, m.Sort, m.T, k, x,
		ite(vc.mapDom(m, k), vc.mapCard(m), vc.arith("+", vc.mapCard(m), one, true)))
}

// mapDelete: delete(m, k). The value array is reset to the zero value at k so that
// a later m[k] reads the zero value.
func (vc *VC) mapDelete(m Val, k string) string {
	inf := vc.info(m.Sort)
	one := vc.intLit(1)
	return fmt.Sprintf("(mk_%s (store (%s_dom %s) %s false) (store (%s_val %s) %s %s) %s (%s_nil %s))",
		m.Sort, m.Sort, m.T, k, m.Sort, m.T, k, vc.zero(inf.Elem),
		ite(vc.mapDom(m, k), vc.arith("-", vc.mapCard(m), one, true), vc.mapCard(m)), m.Sort, m.T)
}

// wf: well-formedness assumption for an input value of the given sort/type
func (vc *VC) wf(v Val) string {
	var cs []string
	if t, ok := v.GoT.(types.Type); ok && t != nil {
		if isInteger(t) && isUnsigned(t) {
			cs = append(cs, vc.cmp(">=", v.T, vc.intLit(0), true))
		}
	}
	inf := vc.info(v.Sort)
	if inf != nil {
		switch inf.Kind {
		case kSlice:
			cs = append(cs, vc.cmp(">=", vc.slLen(v), vc.intLit(0), true))
			cs = append(cs, implies(vc.isNil(v), eq(vc.slLen(v), vc.intLit(0))))
		case kMap:
			cs = append(cs, vc.cmp(">=", vc.mapCard(v), vc.intLit(0), true))
			// a nil map has no keys; an empty map has no keys; a map with a key is non-empty
			kx := "wfk"
			cs = append(cs, fmt.Sprintf("(forall ((%s %s)) (! (=> (select (%s_dom %s) %s) (and (> %s 0) (not (%s_nil %s)))) :pattern ((select (%s_dom %s) %s))))",
				kx, inf.Key, v.Sort, v.T, kx, vc.mapCardInt(v), v.Sort, v.T, v.Sort, v.T, kx))
		}
	}
	return and(cs...)
}

func (vc *VC) mapCardInt(v Val) string {
	if vc.bv {
		return fmt.Sprintf("(bv2nat %s)", vc.mapCard(v))
	}
	return vc.mapCard(v)
}
