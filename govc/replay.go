package main

// replay.go: replaying solver models against the real code.
//
// A function under contract may have a replay template /verif/replaytpl/<report name>.tmpl: a Go test (in the
// function's package) with {{name}} placeholders, preceded by header lines
//
//	//govc:dir <package directory relative to the repository root>
//	//govc:value <name> <int|bool|string> <spec expression over the function's entry state>
//	//govc:require <spec expression>        (the model must make it true, else the model is outside the template)
//
// When an obligation of that function is refuted with a model (sat), the values of the expressions are read from
// the model with (get-value), substituted into the template, and the test is run in-package against the tree under
// test through `go test -overlay`. The template's own assertions restate the failing clause in Go: the violation
// counts as replayed only if the test FAILS on the real code.

import (
	"context"
	"encoding/json"
	"fmt"
	"os"
	"os/exec"
	"path/filepath"
	"regexp"
	"strings"
	"time"
)

type replayValue struct {
	Name, Kind, Expr string
	Term, Sort       string
}

type replayPlan struct {
	Dir      string
	Values   []replayValue
	Requires []replayValue // Kind bool
	Body     string
	File     string
}

func loadReplayTemplate(verif, repName string) *replayPlan {
	path := filepath.Join(verif, "replaytpl", repName+".tmpl")
	data, err := os.ReadFile(path)
	if err != nil {
		return nil
	}
	pl := &replayPlan{File: path}
	var body []string
	for _, l := range strings.Split(string(data), "\n") {
		t := strings.TrimSpace(l)
		switch {
		case strings.HasPrefix(t, "//govc:dir "):
			pl.Dir = strings.TrimSpace(strings.TrimPrefix(t, "//govc:dir "))
		case strings.HasPrefix(t, "//govc:value "):
			fs := strings.Fields(strings.TrimPrefix(t, "//govc:value "))
			if len(fs) >= 3 {
				pl.Values = append(pl.Values, replayValue{Name: fs[0], Kind: fs[1], Expr: strings.Join(fs[2:], " ")})
			}
		case strings.HasPrefix(t, "//govc:require "):
			pl.Requires = append(pl.Requires, replayValue{Name: fmt.Sprintf("req%d", len(pl.Requires)), Kind: "bool", Expr: strings.TrimSpace(strings.TrimPrefix(t, "//govc:require "))})
		default:
			body = append(body, l)
		}
	}
	pl.Body = strings.Join(body, "\n")
	if pl.Dir == "" {
		return nil
	}
	return pl
}

// bindReplay translates the template's expressions in the entry environment of the function.
func (x *Exec) bindReplay(pl *replayPlan, env *specEnv) (ok bool) {
	defer func() {
		if r := recover(); r != nil {
			if _, isU := r.(unsupportedErr); isU {
				ok = false
				return
			}
			panic(r)
		}
	}()
	tr := func(v *replayValue) {
		e, err := parseSpecExpr(v.Expr)
		if err != nil {
			panic(unsupported("replay template: " + err.Error()))
		}
		val := env.value(e)
		v.Term, v.Sort = val.T, val.Sort
	}
	for i := range pl.Values {
		tr(&pl.Values[i])
	}
	for i := range pl.Requires {
		tr(&pl.Requires[i])
	}
	return true
}


// parseGetValue parses "((t1 v1) (t2 v2) ...)" into the list of value strings, in order.
func parseGetValue(out string) []string {
	i := strings.Index(out, "((")
	if i < 0 {
		return nil
	}
	s := out[i+1:]
	var vals []string
	depth := 0
	start := -1
	for j := 0; j < len(s); j++ {
		switch s[j] {
		case '(':
			if depth == 0 {
				start = j
			}
			depth++
		case ')':
			depth--
			if depth == 0 && start >= 0 {
				pair := s[start+1 : j]
				vals = append(vals, lastSExpr(pair))
				start = -1
			}
			if depth < 0 {
				return vals
			}
		}
	}
	return vals
}

// lastSExpr returns the last top-level s-expression of "term value".
func lastSExpr(pair string) string {
	pair = strings.TrimSpace(pair)
	if strings.HasSuffix(pair, ")") {
		depth := 0
		for j := len(pair) - 1; j >= 0; j-- {
			switch pair[j] {
			case ')':
				depth++
			case '(':
				depth--
				if depth == 0 {
					return pair[j:]
				}
			}
		}
	}
	if k := strings.LastIndexAny(pair, " \t\n"); k >= 0 {
		return pair[k+1:]
	}
	return pair
}

func smtIntValue(v string) (string, bool) {
	v = strings.TrimSpace(v)
	if m := regexp.MustCompile(`^\(\s*-\s*(\d+)\s*\)$`).FindStringSubmatch(v); m != nil {
		return "-" + m[1], true
	}
	if regexp.MustCompile(`^\d+$`).MatchString(v) {
		return v, true
	}
	if m := regexp.MustCompile(`^#x([0-9a-fA-F]+)$`).FindStringSubmatch(v); m != nil {
		var n uint64
		fmt.Sscanf(m[1], "%x", &n)
		return fmt.Sprintf("%d", int64(n)), true
	}
	return "", false
}

func (p *Program) tryReplay(work, prop string, r *solveResult, path string) bool {
	if r.Status != "sat" || r.Obl == nil || r.VC == nil {
		return false
	}
	pl := p.replayPlans[r.Obl.Func]
	if pl == nil {
		return false
	}
	note := func(f string, a ...any) {
		fh, err := os.OpenFile(path, os.O_APPEND|os.O_WRONLY, 0o644)
		if err == nil {
			fmt.Fprintf(fh, "\n--- replay ---\n"+f+"\n", a...)
			fh.Close()
		}
	}
	// model values of the template's expressions (and of every string literal, to name string values)
	var terms []string
	for _, v := range pl.Values {
		terms = append(terms, v.Term)
	}
	for _, v := range pl.Requires {
		terms = append(terms, v.Term)
	}
	var lits []string
	for lit := range r.VC.strLits {
		lits = append(lits, lit)
	}
	for _, lit := range lits {
		terms = append(terms, r.VC.strLits[lit])
	}
	script := r.VC.script(r.Obl, true)
	script = strings.Replace(script, "(get-model)\n", "", 1) + "(get-value (" + strings.Join(terms, " ") + "))\n"
	qf := filepath.Join(work, "replay", sanitize(r.Obl.Name)+".getvalue.smt2")
	os.WriteFile(qf, []byte(script), 0o644)
	var out string
	for _, sv := range []string{"z3-new", "z3"} {
		ctx, cancel := context.WithTimeout(context.Background(), 30*time.Second)
		b, _ := exec.CommandContext(ctx, sv, "-T:25", qf).CombinedOutput()
		cancel()
		if firstLine(string(b)) == "sat" {
			out = string(b)
			break
		}
	}
	if out == "" {
		note("no model values could be read back (solver did not answer sat on the value query)")
		return false
	}
	vals := parseGetValue(out)
	if len(vals) != len(terms) {
		note("could not parse the model values (%d of %d)", len(vals), len(terms))
		return false
	}
	nV, nR := len(pl.Values), len(pl.Requires)
	litOf := map[string]string{} // model element -> Go string literal
	for i, lit := range lits {
		litOf[vals[nV+nR+i]] = lit
	}
	for i, rq := range pl.Requires {
		if vals[nV+i] != "true" {
			note("the model is outside the replay template's reach (%s is %s)", rq.Expr, vals[nV+i])
			return false
		}
	}
	src := pl.Body
	fresh := 0
	synth := map[string]string{}
	var bound []string
	for i, v := range pl.Values {
		mv := vals[i]
		var golit string
		switch v.Kind {
		case "int":
			n, ok := smtIntValue(mv)
			if !ok {
				note("value of %s is not an integer literal: %s", v.Name, mv)
				return false
			}
			golit = n
		case "bool":
			if mv != "true" && mv != "false" {
				note("value of %s is not a boolean: %s", v.Name, mv)
				return false
			}
			golit = mv
		case "string":
			if lit, ok := litOf[mv]; ok {
				golit = fmt.Sprintf("%q", lit)
			} else {
				if _, ok := synth[mv]; !ok {
					synth[mv] = fmt.Sprintf("govc-s%d", fresh)
					fresh++
				}
				golit = fmt.Sprintf("%q", synth[mv])
			}
		default:
			note("unknown value kind %s", v.Kind)
			return false
		}
		bound = append(bound, v.Name+"="+golit)
		src = strings.ReplaceAll(src, "{{"+v.Name+"}}", golit)
	}
	if strings.Contains(src, "{{") {
		note("template has unbound placeholders")
		return false
	}
	testFile := filepath.Join(work, "replay", sanitize(r.Obl.Name)+"_replay_test.go")
	os.WriteFile(testFile, []byte(src), 0o644)
	// run it in-package against the tree under test
	ovDir, err := os.MkdirTemp("/var/tmp", "govc-replay.")
	if err != nil {
		return false
	}
	defer os.RemoveAll(ovDir)
	repl := map[string]string{}
	k := 0
	for real, content := range p.overlayBytes {
		f := filepath.Join(ovDir, fmt.Sprintf("ov%d.go", k))
		k++
		os.WriteFile(f, content, 0o644)
		repl[real] = f
	}
	repl[filepath.Join(p.repo, pl.Dir, "zz_govc_replay_test.go")] = testFile
	ovb, _ := json.Marshal(map[string]any{"Replace": repl})
	ovFile := filepath.Join(ovDir, "ov.json")
	os.WriteFile(ovFile, ovb, 0o644)
	ctx, cancel := context.WithTimeout(context.Background(), 150*time.Second)
	defer cancel()
	cmd := exec.CommandContext(ctx, "go", "test", "-overlay", ovFile, "-vet=off", "-count=1", "-timeout", "60s", "-run", "^TestGovcReplay$", ".")
	cmd.Dir = filepath.Join(p.repo, pl.Dir)
	cmd.Env = append(os.Environ(), "GOFLAGS=-mod=mod", "GOPROXY=off", "GOSUMDB=off", "GOTOOLCHAIN=local")
	b, _ := cmd.CombinedOutput()
	res := string(b)
	failed := strings.Contains(res, "--- FAIL: TestGovcReplay")
	note("inputs from the model: %s\ntest: %s\n(go test -overlay … -run TestGovcReplay in %s)\n%s\nreplayed on the real code: %v",
		strings.Join(bound, " "), testFile, pl.Dir, trunc(res, 4000), failed)
	return failed
}
