package main

// replay.go: replaying solver models against the real code.

func (p *Program) tryReplay(work, prop string, r *solveResult, path string) bool {
	return false
}
