package main

// specenv.go: translation of contract expressions (SExpr) to SMT terms in a
// given program state.

import (
	"fmt"
	"go/token"
	"go/types"
	"strconv"
	"strings"
)

type specEnv struct {
	x       *Exec
	st      *State // state in which heap / ghosts / locals are read
	old     *State // state for old(...)
	names   map[string]Val
	pkgPath string
	pos     token.Pos // position for local-variable lookup (invariants); NoPos: no locals
	nq      int
	depth   int
	prev    *State // state at the head of the current loop iteration, for prev(...) in step clauses
	prevNames map[string]Val
}

func (x *Exec) specEnv(st, old *State, names map[string]Val, pkgPath string) *specEnv {
	n := map[string]Val{}
	for k, v := range names {
		n[k] = v
	}
	return &specEnv{x: x, st: st, old: old, names: n, pkgPath: pkgPath}
}

// specEnvAt: environment for loop invariants: locals visible at pos, entry values under old()
func (x *Exec) specEnvAt(st *State, pos token.Pos) *specEnv {
	e := x.specEnv(st, x.old, nil, x.pkg.PkgPath)
	e.pos = pos
	return e
}

func splitConj(e *SExpr) []*SExpr {
	if e.Op == "paren" {
		return splitConj(e.Args[0])
	}
	if e.Op == "bin" && e.Name == "&&" {
		return append(splitConj(e.Args[0]), splitConj(e.Args[1])...)
	}
	return []*SExpr{e}
}

func exprText(e *SExpr) string {
	if e == nil {
		return ""
	}
	switch e.Op {
	case "id", "int":
		return e.Name
	case "str":
		return strconv.Quote(e.Name)
	case "bin":
		return exprText(e.Args[0]) + " " + e.Name + " " + exprText(e.Args[1])
	case "un":
		return e.Name + exprText(e.Args[0])
	case "paren":
		return "(" + exprText(e.Args[0]) + ")"
	case "sel":
		return exprText(e.Args[0]) + "." + e.Name
	case "index":
		return exprText(e.Args[0]) + "[" + exprText(e.Args[1]) + "]"
	case "slice":
		return exprText(e.Args[0]) + "[" + exprText(e.Args[1]) + ":" + exprText(e.Args[2]) + "]"
	case "call":
		var as []string
		for _, a := range e.Args[1:] {
			as = append(as, exprText(a))
		}
		return exprText(e.Args[0]) + "(" + strings.Join(as, ", ") + ")"
	case "quant":
		var bs []string
		for _, b := range e.Binders {
			bs = append(bs, b.Name+" "+b.Type.Text)
		}
		return e.Name + " " + strings.Join(bs, ", ") + " :: " + exprText(e.Args[0])
	}
	return "?"
}

func (e *specEnv) fail(f string, a ...any) {
	panic(unsupported("contract: " + fmt.Sprintf(f, a...)))
}

func (e *specEnv) boolean(s *SExpr) string {
	v := e.value(s)
	if v.Sort != "Bool" {
		e.fail("expected a boolean, got sort %s in %s", v.Sort, exprText(s))
	}
	return v.T
}

func (e *specEnv) vc() *VC { return e.x.vc }

func boolVal(t string) Val { return Val{T: t, Sort: "Bool", GoT: types.Typ[types.Bool]} }

func (e *specEnv) intVal(t string) Val {
	return Val{T: t, Sort: e.vc().intSort(), GoT: types.Typ[types.Int]}
}

func (e *specEnv) lookup(name string) (Val, bool) {
	if v, ok := e.names[name]; ok {
		return v, true
	}
	x := e.x
	switch name {
	case "true":
		return boolVal("true"), true
	case "false":
		return boolVal("false"), true
	case "nil":
		return Val{T: "nil", Sort: "Nil"}, true
	case "now":
		// the ghost clock: the latest value returned by time.Now() (time.Time as nanoseconds)
		v := x.lookupHeap(e.st, "G:$now", x.vc.intSort())
		v.GoT = types.Typ[types.Int64]
		return v, true
	}
	// Go local at the invariant's position
	if e.pos != token.NoPos {
		if sc := x.pkg.Types.Scope().Innermost(e.pos); sc != nil {
			if _, obj := sc.LookupParent(name, e.pos); obj != nil {
				if v, ok := obj.(*types.Var); ok && !x.isGlobal(v) {
					return x.getVar(e.st, v), true
				}
			}
		}
	}
	if e.pos != token.NoPos && x.body != nil {
		// a local declared in a nested block, if its name is unique in the function
		var found []*types.Var
		for id, obj := range x.pkg.TypesInfo.Defs {
			if v, ok := obj.(*types.Var); ok && id.Name == name && !v.IsField() && id.Pos() >= x.body.Pos() && id.Pos() <= x.body.End() {
				found = append(found, v)
			}
		}
		if len(found) == 1 {
			if _, ok := e.st.vars[found[0]]; ok {
				return x.getVar(e.st, found[0]), true
			}
		}
	}
	// ghost variable
	if g, ok := x.prog.specs.Ghosts[name]; ok {
		return x.ghostVal(e.st, g), true
	}
	// package-level object of the contract's package
	if p := x.prog.byPath[e.pkgPath]; p != nil {
		if obj := p.Types.Scope().Lookup(name); obj != nil {
			switch o := obj.(type) {
			case *types.Const:
				if v, ok := x.constVal(types.TypeAndValue{Type: o.Type(), Value: o.Val()}); ok {
					return v, true
				}
			case *types.Var:
				return x.globalVal(e.st, o), true
			}
		}
	}
	return Val{}, false
}

func (e *specEnv) value(s *SExpr) Val {
	vc := e.vc()
	switch s.Op {
	case "paren":
		return e.value(s.Args[0])
	case "int":
		n, err := strconv.ParseInt(s.Name, 0, 64)
		if err != nil {
			return e.intVal(vc.bigLit(s.Name))
		}
		return e.intVal(vc.intLit(n))
	case "str":
		return Val{T: vc.strLit(s.Name), Sort: "Str", GoT: types.Typ[types.String]}
	case "id":
		if v, ok := e.lookup(s.Name); ok {
			return v
		}
		e.fail("unknown identifier %q", s.Name)
	case "un":
		v := e.value(s.Args[0])
		switch s.Name {
		case "!":
			return boolVal(not(v.T))
		case "-":
			return Val{T: vc.arith("-", vc.intLit(0), v.T, true), Sort: v.Sort, GoT: v.GoT}
		case "*":
			t, ok := v.GoT.(types.Type)
			if !ok {
				e.fail("dereference of untyped value")
			}
			pt, ok := t.Underlying().(*types.Pointer)
			if !ok {
				e.fail("dereference of non-pointer")
			}
			return e.x.deref(e.st, v, pt.Elem())
		}
		e.fail("unary %s", s.Name)
	case "bin":
		return e.binary(s)
	case "sel":
		return e.selector(s)
	case "index":
		b := e.value(s.Args[0])
		i := e.value(s.Args[1])
		if b.Set != nil {
			return boolVal(b.Set(i))
		}
		inf := vc.info(b.Sort)
		if inf != nil {
			switch inf.Kind {
			case kSlice:
				return vc.slIndex(b, i.T)
			case kMap:
				if i.Sort != inf.Key {
					i = e.coerce(i, inf.Key, inf.KeyT)
				}
				v := vc.mapVal(b, i.T)
				v.T = ite(vc.mapDom(b, i.T), v.T, vc.zero(v.Sort))
				return v
			case kArray:
				return Val{T: fmt.Sprintf("(select %s %s)", b.T, i.T), Sort: inf.Elem, GoT: inf.ElemT}
			}
		}
		if strings.HasPrefix(b.Sort, "(Array ") {
			// raw array value
			es := arrayElemSort(b.Sort)
			return Val{T: fmt.Sprintf("(select %s %s)", b.T, i.T), Sort: es}
		}
		e.fail("index on sort %s", b.Sort)
	case "slice":
		b := e.value(s.Args[0])
		lo := vc.intLit(0)
		if s.Args[1] != nil {
			lo = e.value(s.Args[1]).T
		}
		hi := vc.slLen(b)
		if s.Args[2] != nil {
			hi = e.value(s.Args[2]).T
		}
		return e.x.subSlice(b, lo, hi)
	case "quant":
		return e.quant(s)
	case "call":
		return e.call(s)
	}
	e.fail("cannot translate %s", exprText(s))
	return Val{}
}

func arrayElemSort(s string) string {
	// "(Array K V)" with possibly nested sorts: V is the last balanced component
	inner := strings.TrimSuffix(strings.TrimPrefix(s, "(Array "), ")")
	depth := 0
	for i := 0; i < len(inner); i++ {
		switch inner[i] {
		case '(':
			depth++
		case ')':
			depth--
		case ' ':
			if depth == 0 {
				return inner[i+1:]
			}
		}
	}
	return inner
}

func arrayKeySort(s string) string {
	inner := strings.TrimSuffix(strings.TrimPrefix(s, "(Array "), ")")
	depth := 0
	for i := 0; i < len(inner); i++ {
		switch inner[i] {
		case '(':
			depth++
		case ')':
			depth--
		case ' ':
			if depth == 0 {
				return inner[:i]
			}
		}
	}
	return inner
}

func (e *specEnv) coerce(v Val, sort string, t types.Type) Val {
	if v.Sort == sort {
		return v
	}
	if v.Sort == "Nil" {
		return Val{T: e.vc().nilTerm(sort), Sort: sort, GoT: t}
	}
	if t != nil {
		return e.x.convertTo(e.st, v, t)
	}
	e.fail("sort mismatch: %s vs %s", v.Sort, sort)
	return v
}

func (e *specEnv) binary(s *SExpr) Val {
	vc := e.vc()
	switch s.Name {
	case "==>":
		return boolVal(implies(e.boolean(s.Args[0]), e.boolean(s.Args[1])))
	case "<==>":
		return boolVal(eq(e.boolean(s.Args[0]), e.boolean(s.Args[1])))
	case "&&":
		return boolVal(and(e.boolean(s.Args[0]), e.boolean(s.Args[1])))
	case "||":
		return boolVal(or(e.boolean(s.Args[0]), e.boolean(s.Args[1])))
	}
	l := e.value(s.Args[0])
	r := e.value(s.Args[1])
	switch s.Name {
	case "==", "!=":
		var t string
		switch {
		case l.Set != nil || r.Set != nil:
			if l.Set == nil || r.Set == nil {
				e.fail("set compared with non-set")
			}
			q := e.bound("x", l.SetElem)
			t = fmt.Sprintf("(forall ((%s %s)) (= %s %s))", q.T, l.SetElem, l.Set(q), r.Set(q))
		case vc.info(l.Sort) != nil && vc.info(l.Sort).Kind == kSlice && r.Sort == l.Sort:
			// sequences: equal length and equal elements in range
			q := e.bound("i", vc.intSort())
			t = and(eq(vc.slLen(l), vc.slLen(r)),
				fmt.Sprintf("(forall ((%s %s)) (=> (and %s %s) (= %s %s)))", q.T, vc.intSort(),
					vc.cmp("<=", vc.intLit(0), q.T, true), vc.cmp("<", q.T, vc.slLen(l), true), vc.slIndex(l, q.T).T, vc.slIndex(r, q.T).T))
		default:
			t = e.x.equalVals(e.st, l, r)
		}
		if s.Name == "!=" {
			t = not(t)
		}
		return boolVal(t)
	}
	var opT types.Type = types.Typ[types.Int]
	if t, ok := l.GoT.(types.Type); ok && t != nil {
		opT = t
	}
	return e.x.binop(e.st, s.Name, l, r, opT)
}

func (e *specEnv) bound(hint, sort string) Val {
	e.x.vc.nfresh++
	return Val{T: fmt.Sprintf("%s!q%d", hint, e.x.vc.nfresh), Sort: sort}
}

func (e *specEnv) selector(s *SExpr) Val {
	x := e.x
	// qualified identifier pkg.Name?
	if b := s.Args[0]; b.Op == "id" {
		if _, isVal := e.lookup(b.Name); !isVal {
			path := x.prog.resolveQual(e.pkgPath, b.Name)
			if p := x.prog.byPath[path]; p != nil || path != b.Name || x.prog.typesPkg(path) != nil {
				var obj types.Object
				if p != nil {
					obj = p.Types.Scope().Lookup(s.Name)
				} else if tp := x.prog.typesPkg(path); tp != nil {
					obj = tp.Scope().Lookup(s.Name)
				}
				switch o := obj.(type) {
				case *types.Const:
					if v, ok := x.constVal(types.TypeAndValue{Type: o.Type(), Value: o.Val()}); ok {
						return v
					}
				case *types.Var:
					if sv, ok := x.specialGlobal(o); ok {
						return sv
					}
					return x.globalVal(e.st, o)
				}
				e.fail("unknown qualified name %s.%s", b.Name, s.Name)
			}
		}
	}
	v := e.value(s.Args[0])
	t, _ := v.GoT.(types.Type)
	if t == nil {
		// spec-only struct value? try field selection on the datatype
		if f, ok := x.vc.selField(v, s.Name); ok {
			return f
		}
		e.fail("field %s of untyped value (%s)", s.Name, exprText(s))
	}
	obj, index, _ := types.LookupFieldOrMethod(t, true, nil, s.Name)
	if obj == nil {
		// unexported field of another package: LookupFieldOrMethod needs the package
		if n := namedOf(t); n != nil && n.Obj().Pkg() != nil {
			obj, index, _ = types.LookupFieldOrMethod(t, true, n.Obj().Pkg(), s.Name)
		}
	}
	fv, ok := obj.(*types.Var)
	if !ok || !fv.IsField() {
		e.fail("no field %s in %s", s.Name, t)
	}
	cur := v
	for _, fi := range index {
		if pt, ok := t.Underlying().(*types.Pointer); ok {
			cur = x.deref(e.st, cur, pt.Elem())
			t = pt.Elem()
		}
		stt := t.Underlying().(*types.Struct)
		f := stt.Field(fi)
		nv, ok := x.vc.selField(cur, f.Name())
		if !ok {
			nv = x.opaqueField(cur, t, f)
		}
		cur = nv
		t = f.Type()
	}
	// a map or slice held in a field is a well-formed value (a nil map has no keys, lengths are not negative)
	if inf := x.vc.info(cur.Sort); inf != nil && (inf.Kind == kMap || inf.Kind == kSlice) && !strings.Contains(cur.T, "!q") {
		if w := x.vc.wf(cur); w != "true" && w != "" {
			x.vc.termFact(w)
		}
	}
	return cur
}

func namedOf(t types.Type) *types.Named {
	if p, ok := t.(*types.Pointer); ok {
		t = p.Elem()
	}
	n, _ := t.(*types.Named)
	return n
}

func (e *specEnv) quant(s *SExpr) Val {
	x := e.x
	saved := map[string]*Val{}
	var decls []string
	var guards []string
	for _, b := range s.Binders {
		srt, elem, got := x.prog.specSort(x.vc, e.pkgPath, b.Type)
		if elem != "" {
			e.fail("set-typed binder")
		}
		q := e.bound(b.Name, srt)
		q.GoT = got
		if old, ok := e.names[b.Name]; ok {
			o := old
			saved[b.Name] = &o
		} else {
			saved[b.Name] = nil
		}
		e.names[b.Name] = q
		decls = append(decls, fmt.Sprintf("(%s %s)", q.T, srt))
		if got != nil && isInteger(got) && isUnsigned(got) {
			guards = append(guards, x.vc.cmp(">=", q.T, x.vc.intLit(0), true))
		}
	}
	body := e.boolean(s.Args[0])
	for k, v := range saved {
		if v == nil {
			delete(e.names, k)
		} else {
			e.names[k] = *v
		}
	}
	g := and(guards...)
	if s.Name == "forall" {
		return boolVal(fmt.Sprintf("(forall (%s) %s)", strings.Join(decls, " "), implies(g, body)))
	}
	return boolVal(fmt.Sprintf("(exists (%s) %s)", strings.Join(decls, " "), and(g, body)))
}

func (e *specEnv) asSet(v Val, what string) Val {
	if v.Set == nil {
		// an (Array T Bool) value is a set
		if strings.HasPrefix(v.Sort, "(Array ") && arrayElemSort(v.Sort) == "Bool" {
			return e.x.wrapSet(v, arrayKeySort(v.Sort))
		}
		e.fail("%s: expected a set", what)
	}
	return v
}

func (e *specEnv) call(s *SExpr) Val {
	x := e.x
	vc := e.vc()
	fn := s.Args[0]
	args := s.Args[1:]
	// x.M(args) where M is a pure library method of x's Go type: the same uninterpreted symbol the code's
	// own call of that method denotes (sugar for libfn("pkg.T.M", 0, x, args...))
	if fn.Op == "sel" {
		recv := e.value(fn.Args[0])
		if t, ok := recv.GoT.(types.Type); ok && t != nil {
			var tp *types.Package
			if n, isN := t.(*types.Named); isN {
				tp = n.Obj().Pkg()
			} else if p, isP := t.(*types.Pointer); isP {
				if n, isN := p.Elem().(*types.Named); isN {
					tp = n.Obj().Pkg()
				}
			}
			if obj, _, _ := types.LookupFieldOrMethod(t, true, tp, fn.Name); obj != nil {
				if mf, isF := obj.(*types.Func); isF && x.prog.isPureLib(mf) {
					call := &SExpr{Op: "call", Args: append([]*SExpr{{Op: "id", Name: "libfn"}, {Op: "str", Name: funcKey(mf)}, {Op: "int", Name: "0"}, fn.Args[0]}, args...)}
					return e.call(call)
				}
			}
		}
		e.fail("call of %s: only pure library methods can be called in specifications", exprText(fn))
	}
	if fn.Op != "id" {
		e.fail("call of %s", exprText(fn))
	}
	argv := func(i int) Val {
		if i >= len(args) {
			e.fail("%s: missing argument %d", fn.Name, i+1)
		}
		return e.value(args[i])
	}
	switch fn.Name {
	case "old":
		if e.old == nil {
			e.fail("old() not available here")
		}
		sub := &specEnv{x: x, st: e.old, old: e.old, names: e.names, pkgPath: e.pkgPath, pos: e.pos}
		return sub.value(args[0])
	case "prev":
		// prev(e): e at the head of this loop iteration (only in "step" clauses)
		if e.prev == nil {
			e.fail("prev() is only available in a loop's step clause")
		}
		nm := e.names
		if e.prevNames != nil {
			// loop counters (idxN, the range key, seenN ...) have their head-of-iteration values too
			nm = map[string]Val{}
			for k, v := range e.names {
				nm[k] = v
			}
			for k, v := range e.prevNames {
				nm[k] = v
			}
		}
		sub := &specEnv{x: x, st: e.prev, old: e.old, names: nm, pkgPath: e.pkgPath, pos: e.pos}
		return sub.value(args[0])
	case "len":
		v := argv(0)
		return x.lenOf(v)
	case "isnil":
		return boolVal(vc.isNil(argv(0)))
	case "ite":
		c := e.boolean(args[0])
		a, b := argv(1), argv(2)
		if b.Sort == "Nil" {
			b = e.coerce(b, a.Sort, nil)
		}
		if a.Sort == "Nil" {
			a = e.coerce(a, b.Sort, nil)
		}
		r := a
		r.T = ite(c, a.T, b.T)
		return r
	case "in":
		el := argv(0)
		set := e.asSet(argv(1), "in")
		if el.Sort != set.SetElem {
			el = e.coerce(el, set.SetElem, nil)
		}
		return boolVal(set.Set(el))
	case "elems":
		sv := argv(0)
		inf := vc.info(sv.Sort)
		if inf == nil || inf.Kind != kSlice {
			e.fail("elems of non-slice")
		}
		return Val{SetElem: inf.Elem, Sort: "Set", Set: func(el Val) string {
			q := e.bound("i", vc.intSort())
			return fmt.Sprintf("(exists ((%s %s)) (and %s %s (= (select %s %s) %s)))", q.T, vc.intSort(),
				vc.cmp("<=", vc.intLit(0), q.T, true), vc.cmp("<", q.T, vc.slLen(sv), true), vc.slArr(sv), q.T, el.T)
		}}
	case "dom":
		mv := argv(0)
		inf := vc.info(mv.Sort)
		if inf == nil || inf.Kind != kMap {
			e.fail("dom of non-map")
		}
		return Val{SetElem: inf.Key, Sort: "Set", Set: func(el Val) string { return vc.mapDom(mv, el.T) }}
	case "setof":
		var vals []Val
		for i := range args {
			vals = append(vals, argv(i))
		}
		if len(vals) == 0 {
			e.fail("setof needs arguments")
		}
		return Val{SetElem: vals[0].Sort, Sort: "Set", Set: func(el Val) string {
			var ds []string
			for _, v := range vals {
				ds = append(ds, eq(el.T, v.T))
			}
			return or(ds...)
		}}
	case "union", "inter", "diff":
		a := e.asSet(argv(0), fn.Name)
		out := a
		for i := 1; i < len(args); i++ {
			b := e.asSet(argv(i), fn.Name)
			prev := out
			switch fn.Name {
			case "union":
				out = Val{SetElem: a.SetElem, Sort: "Set", Set: func(el Val) string { return or(prev.Set(el), b.Set(el)) }}
			case "inter":
				out = Val{SetElem: a.SetElem, Sort: "Set", Set: func(el Val) string { return and(prev.Set(el), b.Set(el)) }}
			case "diff":
				out = Val{SetElem: a.SetElem, Sort: "Set", Set: func(el Val) string { return and(prev.Set(el), not(b.Set(el))) }}
			}
		}
		return out
	case "sub", "disjoint":
		a := e.asSet(argv(0), fn.Name)
		b := e.asSet(argv(1), fn.Name)
		q := e.bound("x", a.SetElem)
		if fn.Name == "sub" {
			return boolVal(fmt.Sprintf("(forall ((%s %s)) (=> %s %s))", q.T, a.SetElem, a.Set(q), b.Set(q)))
		}
		return boolVal(fmt.Sprintf("(forall ((%s %s)) (not (and %s %s)))", q.T, a.SetElem, a.Set(q), b.Set(q)))
	case "empty":
		a := e.asSet(argv(0), fn.Name)
		q := e.bound("x", a.SetElem)
		return boolVal(fmt.Sprintf("(forall ((%s %s)) (not %s))", q.T, a.SetElem, a.Set(q)))
	case "distinct":
		sv := argv(0)
		inf := vc.info(sv.Sort)
		if inf == nil || inf.Kind != kSlice {
			e.fail("distinct of non-slice")
		}
		i, j := e.bound("i", vc.intSort()), e.bound("j", vc.intSort())
		return boolVal(fmt.Sprintf("(forall ((%s %s) (%s %s)) (=> (and %s %s %s) (not (= (select %s %s) (select %s %s)))))",
			i.T, vc.intSort(), j.T, vc.intSort(),
			vc.cmp("<=", vc.intLit(0), i.T, true), vc.cmp("<", i.T, j.T, true), vc.cmp("<", j.T, vc.slLen(sv), true),
			vc.slArr(sv), i.T, vc.slArr(sv), j.T))
	case "held":
		// held(x.mu): the lock denoted by this expression text is held on this path
		if len(args) != 1 {
			e.fail("held(lock expression)")
		}
		if e.st.held != nil && e.st.held[exprText(args[0])] {
			return boolVal("true")
		}
		return boolVal("false")
	case "pointee_zero":
		// pointee_zero(p): the object the pointer argument p refers to holds the zero value of its type
		// (p is an interface-typed parameter; the static type is taken from the call site)
		if len(args) != 1 || args[0].Op != "id" {
			e.fail("pointee_zero(parameter)")
		}
		rv, ok := x.curRaw[args[0].Name]
		if !ok {
			e.fail("pointee_zero: %s is not a parameter of the call", args[0].Name)
		}
		t, _ := rv.GoT.(types.Type)
		if t == nil {
			e.fail("pointee_zero: untyped argument")
		}
		pt, isPtr := t.Underlying().(*types.Pointer)
		if !isPtr {
			return boolVal("true")
		}
		cur := x.deref(e.st, rv, pt.Elem())
		return boolVal(eq(cur.T, x.vc.zero(cur.Sort)))
	case "final":
		// final(x): the value of the Go variable x at the return (parameters otherwise denote entry values)
		if len(args) != 1 || args[0].Op != "id" {
			e.fail("final(identifier)")
		}
		saved, had := e.names[args[0].Name]
		delete(e.names, args[0].Name)
		v, ok := e.lookup(args[0].Name)
		if had {
			e.names[args[0].Name] = saved
		}
		if !ok {
			e.fail("unknown identifier %q (final)", args[0].Name)
		}
		return v
	case "qget":
		// qget(q, k): url.Values.Get — first value of k, or ""
		m := argv(0)
		k := argv(1)
		inf := vc.info(m.Sort)
		if inf == nil || inf.Kind != kMap {
			e.fail("qget of non-map")
		}
		vs := vc.mapVal(m, k.T)
		first := vc.slIndex(vs, vc.intLit(0))
		return Val{T: ite(and(vc.mapDom(m, k.T), vc.cmp(">", vc.slLen(vs), vc.intLit(0), true)), first.T, "str_empty"), Sort: "Str", GoT: types.Typ[types.String]}
	case "ctxdone":
		// ctxdone(ctx): a receive from ctx.Done() has completed on this path (the context is cancelled / timed out)
		c := argv(0)
		setSort := fmt.Sprintf("(Array %s Bool)", c.Sort)
		cur := x.lookupHeap(e.st, "G:$ctxdone", setSort)
		return boolVal(fmt.Sprintf("(select %s %s)", cur.T, c.T))
	case "sprintf":
		// sprintf(format, args...): the value the code's own fmt.Sprintf(format, args...) denotes (the same uninterpreted
		// function of the format and the boxed arguments)
		if len(args) < 1 {
			e.fail("sprintf(format, args...)")
		}
		anyT := types.NewInterfaceType(nil, nil)
		slT := types.NewSlice(anyT)
		srt := vc.sortOf(slT)
		inf := vc.info(srt)
		arr := vc.constArr(vc.intSort(), inf.Elem)
		n := int64(0)
		for i := 1; i < len(args); i++ {
			av := argv(i)
			if t, ok := av.GoT.(types.Type); !ok || t == nil {
				switch av.Sort {
				case "Str":
					av.GoT = types.Typ[types.String]
				case "Bool":
					av.GoT = types.Typ[types.Bool]
				default:
					e.fail("sprintf: the Go type of argument %d is not known (boxing depends on it)", i)
				}
			}
			bv := x.convertTo(e.st, av, anyT)
			arr = fmt.Sprintf("(store %s %s %s)", arr, vc.intLit(n), bv.T)
			n++
		}
		isnil := "false"
		if n == 0 {
			isnil = "true"
		}
		packed := Val{T: vc.mkSlice(srt, arr, vc.intLit(n), isnil), Sort: srt, GoT: slT}
		f := argv(0)
		name := "uf_fmt_Sprintf_0_" + sanitize(strings.Join([]string{f.Sort, packed.Sort}, "_"))
		vc.declFun(name, []string{f.Sort, packed.Sort}, "Str")
		return Val{T: fmt.Sprintf("(%s %s %s)", name, f.T, packed.T), Sort: "Str", GoT: types.Typ[types.String]}
	case "libfn":
		// libfn("pkg.Func", resultIndex, args...): the uninterpreted function standing for a pure library function
		if len(args) < 2 || args[0].Op != "str" || args[1].Op != "int" {
			e.fail("libfn(\"pkg.Func\", index, args...)")
		}
		var sorts, terms []string
		var vals []Val
		for i := 2; i < len(args); i++ {
			v := argv(i)
			vals = append(vals, v)
			sorts = append(sorts, v.Sort)
			terms = append(terms, v.T)
		}
		key := args[0].Name
		if k := strings.LastIndex(key, "."); k > 0 && !strings.Contains(key[:k], "/") {
			// qualify a short package name through the imports
			parts := strings.SplitN(key, ".", 2)
			key = x.prog.resolveQual(e.pkgPath, parts[0]) + "." + parts[1]
		}
		name := fmt.Sprintf("uf_%s_%s", sanitize(key), args[1].Name)
		if len(name) > 100 {
			name = name[:100]
		}
		name += "_" + sanitize(strings.Join(sorts, "_"))
		if len(name) > 160 {
			name = name[:160]
		}
		if !x.vc.declared["fun:"+name] {
			// the code under contract does not call this function (any more): declare the symbol from the
			// library signature, so that the clause is about a function the code does not compute
			k := strings.LastIndex(key, ".")
			tp := x.prog.typesPkg(key[:k])
			var fobj *types.Func
			if tp != nil {
				fobj, _ = tp.Scope().Lookup(key[k+1:]).(*types.Func)
			}
			if fobj == nil {
				// pkg.Type.Method
				k2 := strings.LastIndex(key[:k], ".")
				if k2 > 0 {
					if tp2 := x.prog.typesPkg(key[:k2]); tp2 != nil {
						if tn, ok := tp2.Scope().Lookup(key[k2+1 : k]).(*types.TypeName); ok {
							var rt types.Type = types.NewPointer(tn.Type())
							if types.IsInterface(tn.Type()) {
								rt = tn.Type()
							}
							o, _, _ := types.LookupFieldOrMethod(rt, true, tp2, key[k+1:])
							fobj, _ = o.(*types.Func)
						}
					}
				}
			}
			idx, _ := strconv.Atoi(args[1].Name)
			if fobj == nil || idx >= fobj.Type().(*types.Signature).Results().Len() {
				e.fail("libfn: unknown library function %s", key)
			}
			x.vc.declFun(name, sorts, x.vc.sortOf(fobj.Type().(*types.Signature).Results().At(idx).Type()))
		}
		rs := x.vc.funRet[name]
		return Val{T: fmt.Sprintf("(%s %s)", name, strings.Join(terms, " ")), Sort: rs}
	case "as":
		// as(x, "T"): x converted to the (interface) type T
		if len(args) != 2 || args[1].Op != "str" {
			e.fail("as(x, \"Type\")")
		}
		t := x.prog.resolveType(e.pkgPath, args[1].Name)
		if t == nil {
			e.fail("as: unknown type %s", args[1].Name)
		}
		return x.convertTo(e.st, argv(0), t)
	case "any":
		// any(x): x converted to interface{} (as a sync.Map key, for instance)
		return x.convertTo(e.st, argv(0), types.NewInterfaceType(nil, nil))
	case "allocated":
		// allocated(p): the reference p denotes an object that exists in the current state (below the allocation
		// frontier), so nothing allocated later can alias it
		v := argv(0)
		top := x.lookupHeap(e.st, "top", "Int")
		return boolVal(fmt.Sprintf("(and (>= %s 0) (< %s %s))", v.T, v.T, top.T))
	case "fresh":
		// fresh(p): the reference p was allocated during the call/function (not before its entry)
		if e.old == nil {
			e.fail("fresh() needs an old state")
		}
		v := argv(0)
		top := x.lookupHeap(e.old, "top", "Int")
		return boolVal(fmt.Sprintf("(>= %s %s)", v.T, top.T))
	case "same":
		// same(a, b): a and b are the same value of the model (for byte strings: the very result of the same
		// library call, which is what lets an uninterpreted decoder be applied to it); stronger than ==
		a, b := argv(0), argv(1)
		if a.Sort != b.Sort {
			e.fail("same: different sorts %s and %s", a.Sort, b.Sort)
		}
		return boolVal(eq(a.T, b.T))
	case "zerotime":
		// zerotime(): the zero time.Time (the value IsZero() recognises)
		return e.intVal(x.vc.intLit(0))
	case "unixnano":
		// unixnano(n): the time.Time whose UnixNano() is n
		x.vc.declConst("unix_epoch_offset", x.vc.intSort())
		return e.intVal(x.vc.arith("+", "unix_epoch_offset", argv(0).T, true))
	case "haskey":
		mv := argv(0)
		k := argv(1)
		inf := vc.info(mv.Sort)
		if inf == nil || inf.Kind != kMap {
			e.fail("haskey of non-map")
		}
		if k.Sort != inf.Key {
			k = e.coerce(k, inf.Key, inf.KeyT)
		}
		return boolVal(vc.mapDom(mv, k.T))
	case "uf":
		// uf("name", ResultType, args...): an uninterpreted function symbol shared by all contracts
		if len(args) < 2 || args[0].Op != "str" {
			e.fail("uf(\"name\", \"type\", args...)")
		}
		rs, _, got := x.prog.specSort(vc, e.pkgPath, &SType{Text: args[1].Name})
		var sorts, terms []string
		for i := 2; i < len(args); i++ {
			v := argv(i)
			sorts = append(sorts, v.Sort)
			terms = append(terms, v.T)
		}
		name := "spec_" + sanitize(args[0].Name)
		if len(terms) == 0 {
			vc.declConst(name, rs)
			return Val{T: name, Sort: rs, GoT: got}
		}
		vc.declFun(name, sorts, rs)
		return Val{T: fmt.Sprintf("(%s %s)", name, strings.Join(terms, " ")), Sort: rs, GoT: got}
	}
	// spec function
	if sf, ok := x.prog.specs.SpecFuncs[fn.Name]; ok {
		if len(args) != len(sf.Params) {
			e.fail("spec func %s expects %d arguments", sf.Name, len(sf.Params))
		}
		if e.depth > 20 {
			e.fail("spec func recursion too deep in %s", sf.Name)
		}
		names := map[string]Val{}
		for i, p := range sf.Params {
			v := argv(i)
			srt, elem, got := x.prog.specSort(vc, sf.PkgPath, p.Type)
			if elem != "" {
				v = e.asSet(v, sf.Name)
			} else if v.Sort != srt {
				v = e.coerce(v, srt, got)
			}
			if v.GoT == nil && got != nil {
				v.GoT = got
			}
			names[p.Name] = v
		}
		if sf.Opaque {
			// uninterpreted symbol + defining axiom with the application as its trigger: the (state-independent)
			// body is only unfolded where the solver needs it
			rs, relem, rgot := x.prog.specSort(vc, sf.PkgPath, sf.Ret)
			if relem != "" {
				e.fail("opaque spec func %s returns a set", sf.Name)
			}
			sym := "specf_" + sanitize(sf.Name)
			var sorts, terms []string
			for _, p := range sf.Params {
				v := names[p.Name]
				if v.Set != nil {
					e.fail("opaque spec func %s has a set parameter", sf.Name)
				}
				sorts = append(sorts, v.Sort)
				terms = append(terms, v.T)
			}
			if !vc.declared["fun:"+sym] {
				vc.declFun(sym, sorts, rs)
				bnames := map[string]Val{}
				var decls, bts []string
				for i, p := range sf.Params {
					q := e.bound(p.Name, sorts[i])
					q.GoT = names[p.Name].GoT
					bnames[p.Name] = q
					decls = append(decls, fmt.Sprintf("(%s %s)", q.T, sorts[i]))
					bts = append(bts, q.T)
				}
				empty := &State{pc: "true", vars: map[types.Object]Val{}, heap: map[string]Val{}}
				sub := &specEnv{x: x, st: empty, old: empty, names: bnames, pkgPath: sf.PkgPath, depth: e.depth + 1}
				body := sub.value(sf.Body)
				if body.Sort != rs {
					body = e.coerce(body, rs, rgot)
				}
				app := fmt.Sprintf("(%s %s)", sym, strings.Join(bts, " "))
				vc.termFact(fmt.Sprintf("(forall (%s) (! (= %s %s) :pattern (%s)))", strings.Join(decls, " "), app, body.T, app))
			}
			return Val{T: fmt.Sprintf("(%s %s)", sym, strings.Join(terms, " ")), Sort: rs, GoT: rgot}
		}
		sub := &specEnv{x: x, st: e.st, old: e.old, names: names, pkgPath: sf.PkgPath, depth: e.depth + 1}
		return sub.value(sf.Body)
	}
	e.fail("unknown spec function %s", fn.Name)
	return Val{}
}
