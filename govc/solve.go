package main

// solve.go: discharging obligations by racing the installed SMT solvers.

import (
	"context"
	"fmt"
	"os"
	"os/exec"
	"path/filepath"
	"strings"
	"sync"
	"time"
)

type solverSpec struct {
	name string
	cmd  func(file string, timeout time.Duration) []string
}

var solvers = []solverSpec{
	{"z3-5.1.0", func(f string, t time.Duration) []string {
		return []string{"z3-new", fmt.Sprintf("-T:%d", int(t.Seconds())+1), f}
	}},
	{"z3-4.8.12", func(f string, t time.Duration) []string {
		return []string{"z3", fmt.Sprintf("-T:%d", int(t.Seconds())+1), f}
	}},
	{"cvc5-1.0.3", func(f string, t time.Duration) []string {
		return []string{"cvc5", fmt.Sprintf("--tlimit=%d", t.Milliseconds()), f}
	}},
}

type solveResult struct {
	Obl      *Obl
	VC       *VC
	Status   string // unsat, sat, unknown, timeout, error
	Solver   string
	Seconds  float64
	Outputs  map[string]string // solver -> first lines of output
	File     string
	Model    string
	AllUnsat []string // every solver that answered unsat (thorough tier)
}

func firstLine(s string) string {
	s = strings.TrimSpace(s)
	if k := strings.Index(s, "\n"); k >= 0 {
		return s[:k]
	}
	return s
}

func runSolver(ctx context.Context, sp solverSpec, file string, timeout time.Duration) (status, out string, secs float64) {
	args := sp.cmd(file, timeout)
	cctx, cancel := context.WithTimeout(ctx, timeout+2*time.Second)
	defer cancel()
	t0 := time.Now()
	cmd := exec.CommandContext(cctx, args[0], args[1:]...)
	b, _ := cmd.CombinedOutput()
	secs = time.Since(t0).Seconds()
	out = string(b)
	fl := firstLine(out)
	switch {
	case fl == "unsat":
		status = "unsat"
	case fl == "sat":
		status = "sat"
	case fl == "unknown":
		status = "unknown"
	case strings.Contains(fl, "timeout") || cctx.Err() != nil:
		status = "timeout"
	default:
		status = "error"
	}
	return
}

// solveOne races the solvers on one obligation. needAll: wait for every solver (thorough tier).
func solveOne(vc *VC, o *Obl, dir string, timeout time.Duration, needAll bool) *solveResult {
	file := filepath.Join(dir, sanitize(o.Name)+".smt2")
	script := vc.script(o, !o.Vacuity)
	os.WriteFile(file, []byte(script), 0o644)
	res := &solveResult{Obl: o, VC: vc, File: file, Outputs: map[string]string{}}
	if len(script) > 4_000_000 {
		res.Status = "error"
		res.Outputs["govc"] = "VC too large"
		return res
	}
	ctx, cancel := context.WithCancel(context.Background())
	defer cancel()
	type ans struct {
		solver, status, out string
		secs                float64
	}
	use := solvers
	if o.Vacuity {
		use = solvers[:1]
		timeout = 1500 * time.Millisecond
	}
	ch := make(chan ans, len(use))
	for _, sp := range use {
		sp := sp
		go func() {
			s, out, secs := runSolver(ctx, sp, file, timeout)
			ch <- ans{sp.name, s, out, secs}
		}()
	}
	var satAns *ans
	best := ""
	graceStarted := false
	for i := 0; i < len(use); i++ {
		a := <-ch
		res.Outputs[a.solver] = trunc(a.out, 300)
		switch a.status {
		case "unsat":
			res.AllUnsat = append(res.AllUnsat, a.solver)
			if res.Status != "unsat" {
				res.Status, res.Solver, res.Seconds = "unsat", a.solver, a.secs
			}
			if !needAll {
				cancel()
				return res
			}
			// thorough tier: the other back ends get a short grace period to confirm, not their full budget
			if !graceStarted {
				graceStarted = true
				go func() {
					select {
					case <-time.After(8 * time.Second):
						cancel()
					case <-ctx.Done():
					}
				}()
			}
		case "sat":
			if satAns == nil {
				aa := a
				satAns = &aa
			}
			if !needAll && !o.Vacuity {
				// a model refutes the obligation: no need to wait for the others
				cancel()
				res.Status, res.Solver, res.Seconds, res.Model = "sat", a.solver, a.secs, a.out
				return res
			}
		case "unknown":
			if best == "" || best == "timeout" || best == "error" {
				best = "unknown"
				if strings.Contains(a.out, "(define-fun") || strings.Contains(a.out, "(model") {
					res.Model = a.out
				}
			}
		case "timeout":
			if best == "" || best == "error" {
				best = "timeout"
			}
		default:
			if best == "" {
				best = "error"
			}
		}
		if res.Seconds < a.secs && res.Status != "unsat" {
			res.Seconds = a.secs
		}
	}
	if res.Status == "unsat" {
		return res
	}
	if satAns != nil {
		res.Status, res.Solver, res.Seconds, res.Model = "sat", satAns.solver, satAns.secs, satAns.out
		return res
	}
	res.Status = best
	res.Solver = "all"
	return res
}

func solveAll(items []struct {
	vc *VC
	o  *Obl
}, dir string, timeout time.Duration, needAll bool, par int) []*solveResult {
	out := make([]*solveResult, len(items))
	sem := make(chan struct{}, par)
	var wg sync.WaitGroup
	for i, it := range items {
		i, it := i, it
		wg.Add(1)
		sem <- struct{}{}
		go func() {
			defer wg.Done()
			defer func() { <-sem }()
			out[i] = solveOne(it.vc, it.o, dir, timeout, needAll)
		}()
	}
	wg.Wait()
	return out
}
