package main

// exec.go: forward symbolic execution of Go function bodies (typed AST) with
// state merging; emits named obligations into a VC. See DESIGN.md §2.3-2.5.

import (
	"fmt"
	"go/ast"
	"go/token"
	"go/types"
	"os"
	"runtime/debug"
	"sort"
	"strings"

	"golang.org/x/tools/go/packages"
)

type unsupportedErr struct{ msg string }

func unsupported(msg string) unsupportedErr {
	if os.Getenv("GOVC_DEBUG") != "" {
		fmt.Fprintln(os.Stderr, "unsupported:", msg)
		debug.PrintStack()
	}
	return unsupportedErr{msg}
}

type deferred struct {
	call *ast.CallExpr
	lit  *ast.FuncLit
	args []Val
	recv *Val
}

type State struct {
	pc     string
	vars   map[types.Object]Val
	heap   map[string]Val // "H:<sort>" heaps, "G:<ghost>", "V:<global>", "top"
	defers []deferred
	held   map[string]bool // locks held (C18), keyed by lvalue text; key+"#w" marks a write lock
}

func (s *State) clone() *State {
	n := &State{pc: s.pc, vars: make(map[types.Object]Val, len(s.vars)), heap: make(map[string]Val, len(s.heap))}
	for k, v := range s.vars {
		n.vars[k] = v
	}
	for k, v := range s.heap {
		n.heap[k] = v
	}
	n.defers = append([]deferred{}, s.defers...)
	if s.held != nil {
		n.held = map[string]bool{}
		for k, v := range s.held {
			n.held[k] = v
		}
	}
	return n
}

// interiorPtr: the reference standing for &p.f and the location p.f itself
type interiorPtr struct {
	ref Val
	lv  *lval
	pc  string // path condition under which the pointer was taken (on other paths it does not exist)
}

type retState struct {
	st   *State
	vals []Val
}

type flow struct {
	normal    *State // nil: does not fall through
	breaks    map[string][]*State
	continues map[string][]*State
	gotos     map[string][]*State // forward gotos waiting for their label
}

// Exec verifies one function (or closure) against its contract.
type Exec struct {
	prog     *Program
	vc       *VC
	pkg      *packages.Package
	contract *Contract
	fname    string // display name pkgname.Recv.Func
	sig      *types.Signature
	body     *ast.BlockStmt
	ftype    *ast.FuncType
	recvObj  *types.Var
	results  []*types.Var // result holders (named results, or synthetic)
	resNames []string
	returns  []*retState
	old      *State
	entry    map[string]Val // parameter name -> entry value
	loopN    int
	dry      int
	counts   map[string]int
	boxed    map[types.Object]bool
	closures map[types.Object]*ast.FuncLit
	inlineDepth int
	inlineStack []string
	labels   map[ast.Stmt]string
	errGlobals []string
	curPos   token.Pos
	lits     map[*ast.FuncLit]int
	inRets   [][]*retState // stack for inlined calls
	inRes    [][]*types.Var
	spawns   bool
	curLoops []*loopCtx // the loops being executed (their counters are visible in at_call clauses)
	rngFinal map[string]Val
	varargsByCall map[*ast.CallExpr][]Val // the individual arguments packed into the variadic parameter at a call
	interiors []interiorPtr // interior pointers taken so far (&p.f, &s[i]): copies kept in step with the location they stand for
	spawnMode int // > 0 while the calls of a go statement are looked at (call-site assertions and call-history ghosts only)
	safety   bool
	lvWrite  bool // the lvalue being resolved is the target of a write
	rawByCall map[*ast.CallExpr][]Val
	rawArgs  []Val          // arguments of the call being evaluated, before conversion to the parameter types
	curRaw   map[string]Val // the same, by contract parameter name
	aliases  map[types.Object]*lval // map-typed locals bound to a map stored elsewhere (reference semantics)
}

func (x *Exec) posn(p token.Pos) token.Position { return x.prog.fset.Position(p) }

// ---- type info lookups (across packages, for inlined code) ----

func (x *Exec) typeOf(e ast.Expr) types.Type {
	if tv, ok := x.pkg.TypesInfo.Types[e]; ok {
		return tv.Type
	}
	for _, p := range x.prog.pkgs {
		if tv, ok := p.TypesInfo.Types[e]; ok {
			return tv.Type
		}
	}
	if id, ok := e.(*ast.Ident); ok {
		if o := x.objOf(id); o != nil {
			return o.Type()
		}
	}
	panic(unsupported(fmt.Sprintf("no type for expression at %v", x.posn(e.Pos()))))
}

func (x *Exec) tvOf(e ast.Expr) (types.TypeAndValue, bool) {
	if tv, ok := x.pkg.TypesInfo.Types[e]; ok {
		return tv, true
	}
	for _, p := range x.prog.pkgs {
		if tv, ok := p.TypesInfo.Types[e]; ok {
			return tv, true
		}
	}
	return types.TypeAndValue{}, false
}

func (x *Exec) objOf(id *ast.Ident) types.Object {
	if o := x.pkg.TypesInfo.ObjectOf(id); o != nil {
		return o
	}
	for _, p := range x.prog.pkgs {
		if o := p.TypesInfo.ObjectOf(id); o != nil {
			return o
		}
	}
	return nil
}

func (x *Exec) selOf(e *ast.SelectorExpr) *types.Selection {
	if s, ok := x.pkg.TypesInfo.Selections[e]; ok {
		return s
	}
	for _, p := range x.prog.pkgs {
		if s, ok := p.TypesInfo.Selections[e]; ok {
			return s
		}
	}
	return nil
}

// ---- state helpers ----

func (x *Exec) assume(st *State, c string) {
	if c == "true" || c == "" {
		return
	}
	n := x.vc.fresh("pc", "Bool")
	x.vc.fact(eq(n, and(st.pc, c)))
	st.pc = n
}

func (x *Exec) name(hint string, v Val) Val {
	if len(v.T) < 48 || v.Set != nil {
		return v
	}
	n := x.vc.fresh(hint, v.Sort)
	x.vc.fact(eq(n, v.T))
	v.T = n
	return v
}

func (x *Exec) freshVal(hint string, t types.Type) Val {
	s := x.vc.sortOf(t)
	return Val{T: x.vc.fresh(hint, s), Sort: s, GoT: t}
}

// havocVal: fresh value of type t with well-formedness assumed on the path.
func (x *Exec) havocVal(st *State, hint string, t types.Type) Val {
	v := x.freshVal(hint, t)
	x.assume(st, x.vc.wf(v))
	return v
}

func (x *Exec) oblName(class string) string {
	x.counts[class]++
	return fmt.Sprintf("%s#%s.%d", x.fname, class, x.counts[class])
}

func (x *Exec) assert(st *State, class, goal, desc string, pos token.Pos) {
	if x.dry > 0 {
		return
	}
	o := &Obl{Name: x.oblName(class), Class: class, PC: st.pc, Goal: goal, Desc: desc, Func: x.fname, Pos: x.posn(pos)}
	x.vc.addObl(o)
}

func (x *Exec) assertNamed(st *State, name, class, goal, desc string, pos token.Position) {
	if x.dry > 0 {
		return
	}
	o := &Obl{Name: x.fname + "#" + name, Class: class, PC: st.pc, Goal: goal, Desc: desc, Func: x.fname, Pos: pos}
	x.vc.addObl(o)
}

func heapKey(sort string) string { return "H:" + sort }

// heapKeyT: the heap an object of Go type t lives in. Struct objects have one heap per struct type
// (the sort name identifies the type); objects of basic, slice or map type have one heap per Go type,
// so that a *int and a *time.Duration never alias although both point to integers.
func (x *Exec) heapKeyT(t types.Type) (key, elemSort string) {
	es := x.vc.sortOf(t)
	if inf := x.vc.info(es); inf != nil && inf.Kind == kStruct {
		return heapKey(es), es
	}
	k := sanitize(typeKey(t))
	if len(k) > 80 {
		k = k[len(k)-80:]
	}
	return "H:" + es + "@" + k, es
}

func (x *Exec) heapGet(st *State, key, sort string) Val {
	if v, ok := st.heap[key]; ok {
		return v
	}
	// lazily created: an unconstrained initial heap, shared with the entry state
	n := x.vc.fresh("heap_"+strings.TrimPrefix(key, "H:"), sort)
	v := Val{T: n, Sort: sort}
	st.heap[key] = v
	if x.old != nil {
		if _, ok := x.old.heap[key]; !ok {
			x.old.heap[key] = v
		}
	}
	return v
}

// lazily created keys must be the same constant in all states derived from the
// entry state: we pre-create per key in a function-wide table.
func (x *Exec) heapFor(st *State, elemT types.Type) Val {
	key, elemSort := x.heapKeyT(elemT)
	if v, ok := st.heap[key]; ok {
		return v
	}
	return x.initialHeap(st, key, fmt.Sprintf("(Array Int %s)", elemSort))
}

func (x *Exec) initialHeap(st *State, key, sort string) Val {
	v, ok := x.prog.tmpInit[x][key]
	if !ok {
		n := x.vc.fresh("h0_"+sanitize(strings.TrimPrefix(strings.TrimPrefix(key, "H:"), "G:")), sort)
		v = Val{T: n, Sort: sort}
		if x.prog.tmpInit[x] == nil {
			x.prog.tmpInit[x] = map[string]Val{}
		}
		x.prog.tmpInit[x][key] = v
	}
	st.heap[key] = v
	if !ok && strings.HasPrefix(key, "H:") && !strings.Contains(key, "@") {
		x.allocAxioms(v, strings.TrimPrefix(key, "H:"))
	}
	return v
}

// allocAxioms: at function entry every pointer stored in the heap refers to an object that
// already exists (reference below the allocation frontier), so later allocations cannot alias it.
func (x *Exec) allocAxioms(h Val, elemSort string) {
	inf := x.vc.info(elemSort)
	if inf == nil || inf.Kind != kStruct {
		return
	}
	topv, ok := x.prog.tmpInit[x]["top"]
	if !ok {
		return
	}
	isPtr := func(t types.Type) bool {
		if t == nil {
			return false
		}
		_, ok := t.Underlying().(*types.Pointer)
		return ok
	}
	for _, f := range inf.Fields {
		acc := fmt.Sprintf("(%s__%s (select %s r!a))", elemSort, sanitize(f.Name), h.T)
		switch {
		case isPtr(f.GoT):
			x.vc.fact(fmt.Sprintf("(forall ((r!a Int)) (! (and (<= 0 %s) (< %s %s)) :pattern (%s)))", acc, acc, topv.T, acc))
		default:
			fi := x.vc.info(f.Sort)
			if fi == nil {
				continue
			}
			switch fi.Kind {
			case kMap:
				if mt, ok := f.GoT.Underlying().(*types.Map); ok && isPtr(mt.Elem()) {
					el := fmt.Sprintf("(select (%s_val %s) k!a)", f.Sort, acc)
					x.vc.fact(fmt.Sprintf("(forall ((r!a Int) (k!a %s)) (! (and (<= 0 %s) (< %s %s)) :pattern (%s)))", fi.Key, el, el, topv.T, el))
				}
			case kSlice:
				if st, ok := f.GoT.Underlying().(*types.Slice); ok && isPtr(st.Elem()) {
					el := fmt.Sprintf("(select (%s_arr %s) i!a)", f.Sort, acc)
					x.vc.fact(fmt.Sprintf("(forall ((r!a Int) (i!a %s)) (! (and (<= 0 %s) (< %s %s)) :pattern (%s)))", x.vc.intSort(), el, el, topv.T, el))
				}
			}
		}
	}
}

func (x *Exec) lookupHeap(st *State, key, sort string) Val {
	if v, ok := st.heap[key]; ok {
		return v
	}
	v := x.initialHeap(st, key, sort)
	// a part of the state first touched AFTER everything was havocked on this path (a call with unknown or
	// "modifies *" effect) is not the entry state any more: it gets a fresh, unconstrained value
	if _, hv := st.heap["#epoch"]; hv && key != "top" && !strings.HasPrefix(key, "#") {
		nv := Val{T: x.vc.fresh("hv_"+sanitize(key[2:]), v.Sort), Sort: v.Sort, GoT: v.GoT}
		if v.Set != nil {
			nv = x.wrapSet(nv, v.SetElem)
		}
		st.heap[key] = nv
		return nv
	}
	return v
}

func (x *Exec) deref(st *State, ptr Val, elemT types.Type) Val {
	es := x.vc.sortOf(elemT)
	h := x.heapFor(st, elemT)
	v := Val{T: fmt.Sprintf("(select %s %s)", h.T, ptr.T), Sort: es, GoT: elemT}
	// a map or slice read through a pointer is a well-formed one (a nil map has no keys, lengths are not negative)
	if inf := x.vc.info(es); inf != nil && (inf.Kind == kMap || inf.Kind == kSlice) && !strings.Contains(v.T, "!q") {
		if w := x.vc.wf(v); w != "true" && w != "" {
			x.vc.termFact(w)
		}
	}
	return v
}

func (x *Exec) storeRef(st *State, ptr Val, elemT types.Type, v Val) {
	key, es := x.heapKeyT(elemT)
	h := x.heapFor(st, elemT)
	nh := Val{T: fmt.Sprintf("(store %s %s %s)", h.T, ptr.T, v.T), Sort: h.Sort}
	st.heap[key] = x.nameAlways("heap_"+es, nh)
}

func (x *Exec) nameAlways(hint string, v Val) Val {
	n := x.vc.fresh(hint, v.Sort)
	x.vc.fact(eq(n, v.T))
	v.T = n
	return v
}

// alloc returns a fresh non-nil reference distinct from all earlier allocations of this run
func (x *Exec) alloc(st *State) Val {
	top := x.lookupHeap(st, "top", "Int")
	r := x.vc.fresh("ref", "Int")
	x.assume(st, and(fmt.Sprintf("(> %s 0)", r), fmt.Sprintf("(>= %s %s)", r, top.T)))
	nt := x.vc.fresh("top", "Int")
	x.vc.fact(eq(nt, fmt.Sprintf("(+ %s 1)", r)))
	st.heap["top"] = Val{T: nt, Sort: "Int"}
	return Val{T: r, Sort: "Int"}
}

// knownRef: a reference obtained from outside (parameter, call result) is older than anything we allocate later
func (x *Exec) knownRef(st *State, v Val) {
	if v.Sort != "Int" {
		// containers of references (one level): every stored reference is older than later allocations
		t, ok := v.GoT.(types.Type)
		if !ok || t == nil {
			return
		}
		inf := x.vc.info(v.Sort)
		if inf == nil {
			return
		}
		top := x.lookupHeap(st, "top", "Int")
		switch u := t.Underlying().(type) {
		case *types.Slice:
			if _, isPtr := u.Elem().Underlying().(*types.Pointer); isPtr && inf.Kind == kSlice && inf.Elem == "Int" && !x.vc.bv {
				e := fmt.Sprintf("(select %s kri)", x.vc.slArr(v))
				x.assume(st, fmt.Sprintf("(forall ((kri Int)) (! (=> (and (<= 0 kri) (< kri %s)) (and (>= %s 0) (< %s %s))) :pattern (%s)))", x.vc.slLen(v), e, e, top.T, e))
			}
		case *types.Map:
			if _, isPtr := u.Elem().Underlying().(*types.Pointer); isPtr && inf.Kind == kMap && inf.Elem == "Int" && !x.vc.bv {
				e := x.vc.mapVal(v, "krk").T
				x.assume(st, fmt.Sprintf("(forall ((krk %s)) (! (=> %s (and (>= %s 0) (< %s %s))) :pattern (%s)))", inf.Key, x.vc.mapDom(v, "krk"), e, e, top.T, e))
			}
		}
		return
	}
	if t, ok := v.GoT.(types.Type); ok && t != nil {
		if _, isPtr := t.Underlying().(*types.Pointer); isPtr {
			top := x.lookupHeap(st, "top", "Int")
			x.assume(st, and(fmt.Sprintf("(>= %s 0)", v.T), fmt.Sprintf("(< %s %s)", v.T, top.T)))
		}
	}
}

func (x *Exec) havocAll(st *State, why string) {
	x.vc.note("havoc of all heap, ghost and global state at " + why)
	keys := make([]string, 0, len(st.heap))
	for k := range st.heap {
		keys = append(keys, k)
	}
	// also every key already known to the function
	for k := range x.prog.tmpInit[x] {
		if _, ok := st.heap[k]; !ok {
			keys = append(keys, k)
		}
	}
	sort.Strings(keys)
	for _, k := range keys {
		if k == "top" {
			x.havocTop(st)
			continue
		}
		old := x.lookupHeap(st, k, "")
		st.heap[k] = Val{T: x.vc.fresh("hv_"+sanitize(k[2:]), old.Sort), Sort: old.Sort, GoT: old.GoT, Set: nil}
		if old.Set != nil {
			st.heap[k] = x.wrapSet(st.heap[k], old.SetElem)
		}
		if k == "G:$now" {
			x.assume(st, x.vc.cmp(">=", st.heap[k].T, old.T, true))
		}
	}
	st.heap["#epoch"] = Val{T: x.vc.fresh("epoch", "Int"), Sort: "Int"}
}

func (x *Exec) havocTop(st *State) {
	top := x.lookupHeap(st, "top", "Int")
	nt := x.vc.fresh("top", "Int")
	st.heap["top"] = Val{T: nt, Sort: "Int"}
	x.assume(st, fmt.Sprintf("(>= %s %s)", nt, top.T))
}

func (x *Exec) havocKey(st *State, k string) {
	if k == "top" {
		x.havocTop(st)
		return
	}
	old, ok := st.heap[k]
	if !ok {
		old, ok = x.prog.tmpInit[x][k]
		if !ok {
			return // never read so far: reading later creates the initial constant, which must not be reused after havoc
		}
	}
	nv := Val{T: x.vc.fresh("hv_"+sanitize(k[2:]), old.Sort), Sort: old.Sort, GoT: old.GoT}
	if old.Set != nil {
		nv = x.wrapSet(nv, old.SetElem)
	}
	st.heap[k] = nv
	if k == "G:$now" {
		// the clock only moves forward
		x.assume(st, x.vc.cmp(">=", nv.T, old.T, true))
	}
}

func (x *Exec) wrapSet(v Val, elem string) Val {
	t := v.T
	v.Set = func(e Val) string { return fmt.Sprintf("(select %s %s)", t, e.T) }
	v.SetElem = elem
	return v
}

// ---- merging ----

func (x *Exec) merge(states []*State) *State {
	var live []*State
	for _, s := range states {
		if s != nil {
			live = append(live, s)
		}
	}
	if len(live) == 0 {
		return nil
	}
	if len(live) == 1 {
		return live[0]
	}
	out := &State{vars: map[types.Object]Val{}, heap: map[string]Val{}}
	var pcs []string
	for _, s := range live {
		pcs = append(pcs, s.pc)
	}
	npc := x.vc.fresh("pc", "Bool")
	x.vc.fact(eq(npc, or(pcs...)))
	out.pc = npc
	mergeVal := func(hint string, vals []Val) Val {
		same := true
		for _, v := range vals[1:] {
			if v.T != vals[0].T {
				same = false
			}
		}
		if same {
			return vals[0]
		}
		n := x.vc.fresh(hint, vals[0].Sort)
		t := vals[len(vals)-1].T
		for i := len(vals) - 2; i >= 0; i-- {
			t = ite(live[i].pc, vals[i].T, t)
		}
		x.vc.fact(eq(n, t))
		r := vals[0]
		r.T = n
		if r.Set != nil {
			r = x.wrapSet(Val{T: n, Sort: r.Sort, GoT: r.GoT}, r.SetElem)
		}
		return r
	}
	allVars := map[types.Object]bool{}
	var varOrder []types.Object
	for _, s := range live {
		for k := range s.vars {
			if !allVars[k] {
				allVars[k] = true
				varOrder = append(varOrder, k)
			}
		}
	}
	sort.Slice(varOrder, func(i, j int) bool {
		if varOrder[i].Pos() != varOrder[j].Pos() {
			return varOrder[i].Pos() < varOrder[j].Pos()
		}
		return varOrder[i].Name() < varOrder[j].Name()
	})
	for _, k := range varOrder {
		vals := make([]Val, 0, len(live))
		var proto Val
		for _, s := range live {
			if v, has := s.vars[k]; has {
				proto = v
			}
		}
		for _, s := range live {
			v, has := s.vars[k]
			if !has {
				// not declared on this path: unconstrained there
				v = Val{T: x.vc.fresh(k.Name()+"_undef", proto.Sort), Sort: proto.Sort, GoT: proto.GoT}
			}
			vals = append(vals, v)
		}
		out.vars[k] = mergeVal(k.Name(), vals)
	}
	keys := map[string]bool{}
	for _, s := range live {
		for k := range s.heap {
			keys[k] = true
		}
	}
	ks := make([]string, 0, len(keys))
	for k := range keys {
		ks = append(ks, k)
	}
	sort.Strings(ks)
	for _, k := range ks {
		vals := make([]Val, 0, len(live))
		for _, s := range live {
			v, has := s.heap[k]
			if !has {
				if iv, ok := x.prog.tmpInit[x][k]; ok {
					v = iv
				} else {
					v = Val{}
				}
			}
			vals = append(vals, v)
		}
		// a key unknown to some state and without an initial constant: create it
		for i := range vals {
			if vals[i].T == "" {
				var srt string
				for _, w := range vals {
					if w.T != "" {
						srt = w.Sort
					}
				}
				vals[i] = x.initialHeap(live[i], k, srt)
			}
		}
		out.heap[k] = mergeVal(sanitize(k), vals)
	}
	// defers: keep the longest list (conditional defers are not modelled precisely)
	for _, s := range live {
		if len(s.defers) > len(out.defers) {
			out.defers = s.defers
		}
	}
	// lock ownership: paths that join hold the same locks - a lock held on one of them only is a lock that path took
	// and did not give back (or gave back and the other did not): from here on the function does not know what it holds
	if x.dry == 0 && x.contract != nil && x.contract.Opts["own"] && len(x.inRes) == 0 {
		all := map[string]bool{}
		for _, s := range live {
			for k, v := range s.held {
				if v && !strings.HasSuffix(k, "#w") {
					all[k] = true
				}
			}
		}
		var keys []string
		for k := range all {
			keys = append(keys, k)
		}
		sort.Strings(keys)
		for _, k := range keys {
			for _, s := range live {
				if s.held[k] {
					continue
				}
				// some other joining path holds k: that path is the one to blame (if it is feasible at all)
				for _, t := range live {
					if t.held[k] {
						x.counts["lock.join"]++
						x.assertNamed(t, fmt.Sprintf("lock.join.%d", x.counts["lock.join"]), "lock", "false",
							"paths that join hold the same locks ("+k+" is held on one of them only: taken and not released on that path)", x.posn(x.curPos))
					}
				}
				break
			}
		}
	}
	for _, s := range live {
		if s.held != nil {
			if out.held == nil {
				out.held = map[string]bool{}
				for k, v := range s.held {
					out.held[k] = v
				}
			} else {
				for k := range out.held {
					if !s.held[k] {
						delete(out.held, k)
					}
				}
			}
		}
	}
	return out
}

// ---- statements ----

func newFlow() *flow {
	return &flow{breaks: map[string][]*State{}, continues: map[string][]*State{}, gotos: map[string][]*State{}}
}

func (f *flow) absorb(g *flow) {
	for k, v := range g.breaks {
		f.breaks[k] = append(f.breaks[k], v...)
	}
	for k, v := range g.continues {
		f.continues[k] = append(f.continues[k], v...)
	}
	for k, v := range g.gotos {
		f.gotos[k] = append(f.gotos[k], v...)
	}
}

func (x *Exec) execBlock(st *State, stmts []ast.Stmt) *flow {
	out := newFlow()
	cur := st
	for _, s := range stmts {
		if ls, ok := s.(*ast.LabeledStmt); ok {
			// forward gotos to this label join the normal flow here
			if pend := out.gotos[ls.Label.Name]; len(pend) > 0 {
				cur = x.merge(append([]*State{cur}, pend...))
				delete(out.gotos, ls.Label.Name)
			}
		}
		if cur == nil {
			continue
		}
		f := x.execStmt(cur, s, "")
		out.absorb(f)
		cur = f.normal
	}
	out.normal = cur
	return out
}

func (x *Exec) execStmt(st *State, s ast.Stmt, label string) *flow {
	x.curPos = s.Pos()
	out := newFlow()
	switch s := s.(type) {
	case *ast.BlockStmt:
		return x.execBlock(st, s.List)
	case *ast.EmptyStmt:
		out.normal = st
	case *ast.ExprStmt:
		if call, ok := s.X.(*ast.CallExpr); ok {
			if x.isPanic(call) {
				for _, a := range call.Args {
					x.ev(st, a)
				}
				if x.safety {
					x.assert(st, "nopanic", "false", "explicit panic reachable", s.Pos())
				}
				return out // path ends
			}
			x.evCall(st, call)
		} else {
			x.ev(st, s.X)
		}
		out.normal = st
	case *ast.AssignStmt:
		x.execAssign(st, s)
		out.normal = st
	case *ast.IncDecStmt:
		lv := x.lvOf(st, s.X)
		cur := x.load(st, lv)
		op := "+"
		if s.Tok == token.DEC {
			op = "-"
		}
		nv := cur
		nv.T = x.vc.arith(op, cur.T, x.vc.intLit(1), true)
		x.storeLV(st, lv, nv)
		out.normal = st
	case *ast.DeclStmt:
		gd, ok := s.Decl.(*ast.GenDecl)
		if !ok {
			panic(unsupported("decl stmt"))
		}
		if gd.Tok == token.VAR {
			for _, spec := range gd.Specs {
				vs := spec.(*ast.ValueSpec)
				if len(vs.Values) == 1 && len(vs.Names) > 1 {
					vals := x.evMulti(st, vs.Values[0], len(vs.Names))
					for i, n := range vs.Names {
						x.declare(st, n, vals[i])
					}
					continue
				}
				for i, n := range vs.Names {
					if i < len(vs.Values) {
						v := x.ev(st, vs.Values[i])
						v = x.convertTo(st, v, x.objOf(n).Type())
						x.declare(st, n, v)
					} else {
						t := x.objOf(n).Type()
						srt := x.vc.sortOf(t)
						x.declare(st, n, Val{T: x.vc.zero(srt), Sort: srt, GoT: t})
					}
				}
			}
		}
		out.normal = st
	case *ast.IfStmt:
		if s.Init != nil {
			f := x.execStmt(st, s.Init, "")
			st = f.normal
		}
		c := x.evCond(st, s.Cond)
		thenSt := st.clone()
		x.assume(thenSt, c)
		elseSt := st
		x.assume(elseSt, not(c))
		ft := x.execBlock(thenSt, s.Body.List)
		out.absorb(ft)
		var fe *flow
		if s.Else != nil {
			fe = x.execStmt(elseSt, s.Else, "")
			out.absorb(fe)
		} else {
			fe = &flow{normal: elseSt}
		}
		out.normal = x.merge([]*State{ft.normal, fe.normal})
	case *ast.SwitchStmt:
		return x.execSwitch(st, s, label)
	case *ast.TypeSwitchStmt:
		return x.execTypeSwitch(st, s, label)
	case *ast.SelectStmt:
		return x.execSelect(st, s, label)
	case *ast.ForStmt:
		return x.execFor(st, s, label)
	case *ast.RangeStmt:
		return x.execRange(st, s, label)
	case *ast.LabeledStmt:
		return x.execStmt(st, s.Stmt, s.Label.Name)
	case *ast.ReturnStmt:
		x.execReturn(st, s)
	case *ast.BranchStmt:
		l := ""
		if s.Label != nil {
			l = s.Label.Name
		}
		switch s.Tok {
		case token.BREAK:
			out.breaks[l] = append(out.breaks[l], st)
		case token.CONTINUE:
			out.continues[l] = append(out.continues[l], st)
		case token.GOTO:
			// forward goto: the state waits for its label in an enclosing block
			out.gotos[l] = append(out.gotos[l], st)
		default:
			panic(unsupported("branch statement " + s.Tok.String()))
		}
	case *ast.DeferStmt:
		x.execDefer(st, s)
		out.normal = st
	case *ast.GoStmt:
		// dropped: the spawned body is not verified (DESIGN §2.3); arguments are evaluated
		x.spawns = true
		x.execSpawn(st, s)
		out.normal = st
	case *ast.SendStmt:
		x.ev(st, s.Value)
		x.vc.note("channel send dropped")
		if x.contract != nil && len(x.inRes) == 0 {
			key := "send:" + strings.Join(strings.Fields(x.prog.text(s.Chan)), "")
			for i, ca := range x.contract.CallAsserts[key] {
				env := x.specEnvAt(st, s.Pos())
				for j, cj := range x.prog.expandConj(ca.Expr, 0) {
					cls := fmt.Sprintf("send@%s.%d", x.prog.text(s.Chan), i+1)
					if j > 0 {
						cls += fmt.Sprintf(".%d", j+1)
					}
					x.assert(st, cls, env.boolean(cj), "at every send on "+x.prog.text(s.Chan)+": "+exprText(cj), s.Pos())
				}
			}
		}
		out.normal = st
	default:
		panic(unsupported(fmt.Sprintf("statement %T", s)))
	}
	return out
}

func (x *Exec) isPanic(call *ast.CallExpr) bool {
	if id, ok := call.Fun.(*ast.Ident); ok && id.Name == "panic" {
		if _, isB := x.objOf(id).(*types.Builtin); isB {
			return true
		}
	}
	return false
}

func (x *Exec) declare(st *State, id *ast.Ident, v Val) {
	if id.Name == "_" {
		return
	}
	obj := x.objOf(id)
	if obj == nil {
		return
	}
	x.setVar(st, obj, v)
}

func (x *Exec) setVar(st *State, obj types.Object, v Val) {
	if lv, ok := x.aliases[obj]; ok {
		if lv.kind == "mapidx" {
			// the alias came from outer[k]: if k is absent the local is a nil map and writes through it
			// never reach the container (delete is a no-op, assignment panics)
			base := x.load(st, lv.base)
			present := x.vc.mapDom(base, lv.idx.T)
			cur := x.load(st, lv)
			v.T = ite(present, v.T, cur.T)
			nb := base
			nb.T = ite(present, x.vc.mapStore(base, lv.idx.T, v.T), base.T)
			x.storeLV(st, lv.base, x.name("upd", nb))
			return
		}
		x.storeLV(st, lv, v)
		return
	}
	v = x.name(obj.Name(), v)
	v.GoT = obj.Type()
	if x.boxed[obj] {
		ref, ok := st.vars[obj]
		if !ok {
			ref = x.alloc(st)
			st.vars[obj] = ref
		}
		x.storeRef(st, ref, obj.Type(), v)
		return
	}
	st.vars[obj] = v
}

func (x *Exec) getVar(st *State, obj types.Object) Val {
	if lv, ok := x.aliases[obj]; ok {
		v := x.load(st, lv)
		v.GoT = obj.Type()
		return v
	}
	if x.boxed[obj] {
		ref, ok := st.vars[obj]
		if !ok {
			ref = x.alloc(st)
			st.vars[obj] = ref
			srt := x.vc.sortOf(obj.Type())
			x.storeRef(st, ref, obj.Type(), Val{T: x.vc.zero(srt), Sort: srt})
		}
		return x.deref(st, ref, obj.Type())
	}
	if v, ok := st.vars[obj]; ok {
		return v
	}
	// a variable not yet seen (captured by a closure, or declared in an unvisited branch): unconstrained
	v := x.havocVal(st, obj.Name(), obj.Type())
	st.vars[obj] = v
	return v
}

func (x *Exec) execAssign(st *State, s *ast.AssignStmt) {
	if s.Tok != token.ASSIGN && s.Tok != token.DEFINE {
		// op-assign
		lv := x.lvOf(st, s.Lhs[0])
		cur := x.load(st, lv)
		r := x.ev(st, s.Rhs[0])
		op := strings.TrimSuffix(s.Tok.String(), "=")
		nv := x.binop(st, op, cur, r, x.typeOf(s.Lhs[0]))
		x.storeLV(st, lv, nv)
		return
	}
	var vals []Val
	if len(s.Rhs) == 1 && len(s.Lhs) > 1 {
		vals = x.evMulti(st, s.Rhs[0], len(s.Lhs))
	} else {
		for _, r := range s.Rhs {
			vals = append(vals, x.ev(st, r))
		}
	}
	// evaluate lvalues after the right-hand sides (simplification of Go's order; indices are pure in our subset)
	for i, l := range s.Lhs {
		if id, ok := l.(*ast.Ident); ok {
			if id.Name == "_" {
				continue
			}
			obj := x.objOf(id)
			if s.Tok == token.DEFINE || obj != nil {
				if _, isVar := obj.(*types.Var); isVar && !x.isGlobal(obj) {
					if len(s.Rhs) == len(s.Lhs) && x.aliasable(obj, s.Rhs[i]) {
						// m := outer[k] / m := x.f with m a map: m denotes the same map object afterwards
						delete(x.aliases, obj)
						x.aliases[obj] = x.lvOf(st, s.Rhs[i])
						x.vc.note("map-typed local " + obj.Name() + " treated as an alias of " + x.prog.text(s.Rhs[i]))
						continue
					}
					if i == 0 && len(s.Rhs) == 1 && len(s.Lhs) == 2 && x.aliasable(obj, s.Rhs[0]) && x.writtenThrough(obj) {
						// m, ok := outer[k]: m denotes the map stored under k (when there is one)
						delete(x.aliases, obj)
						x.aliases[obj] = x.lvOf(st, s.Rhs[0])
						x.vc.note("map-typed local " + obj.Name() + " treated as an alias of " + x.prog.text(s.Rhs[0]))
						continue
					}
					if _, was := x.aliases[obj]; was && s.Tok == token.ASSIGN {
						// re-binding the variable itself (m = make(...)): no longer an alias
						delete(x.aliases, obj)
					}
					v := x.convertTo(st, vals[i], obj.Type())
					x.setVar(st, obj, v)
					continue
				}
			}
		}
		x.lvWrite = true
		lv := x.lvOf(st, l)
		x.lvWrite = false
		v := x.convertTo(st, vals[i], x.typeOf(l))
		x.storeLV(st, lv, v)
		// outer[k] = m / x.f = m with m a map-typed local: from here on m and the container share the map
		if len(s.Rhs) == len(s.Lhs) {
			if rid, ok := unparen(s.Rhs[i]).(*ast.Ident); ok {
				if robj, ok := x.objOf(rid).(*types.Var); ok && !x.isGlobal(robj) {
					if _, isMap := robj.Type().Underlying().(*types.Map); isMap && x.aliasable(robj, l) {
						x.aliases[robj] = lv
						x.vc.note("map-typed local " + robj.Name() + " shares the map it was stored as " + x.prog.text(l))
					}
				}
			}
		}
	}
}

func (x *Exec) isGlobal(obj types.Object) bool {
	return obj.Parent() != nil && obj.Pkg() != nil && obj.Parent() == obj.Pkg().Scope()
}

// convertTo adapts a value to the static type of its destination (interface boxing, nil literals).
func (x *Exec) convertTo(st *State, v Val, t types.Type) Val {
	if t == nil {
		return v
	}
	ts := x.vc.sortOf(t)
	if v.Sort == "Nil" {
		return Val{T: x.vc.nilTerm(ts), Sort: ts, GoT: t}
	}
	if v.Sort == ts {
		v.GoT = t
		return v
	}
	if inf := x.vc.info(ts); inf != nil && inf.Kind == kOpaque {
		// interface to interface: the dynamic value is carried over, nil stays nil
		if sinf := x.vc.info(v.Sort); sinf != nil && sinf.Kind == kOpaque && strings.HasPrefix(v.Sort, "I_") {
			fn := "conv_" + v.Sort + "_to_" + ts
			x.vc.declFun(fn, []string{v.Sort}, ts)
			x.vc.termFact(fmt.Sprintf("(forall ((a!b %s)) (! (= (= (%s a!b) %s) (= a!b %s)) :pattern ((%s a!b))))", v.Sort, fn, x.vc.nilTerm(ts), x.vc.nilTerm(v.Sort), fn))
			x.vc.termFact(fmt.Sprintf("(forall ((a!b %s) (b!b %s)) (! (=> (= (%s a!b) (%s b!b)) (= a!b b!b)) :pattern ((%s a!b) (%s b!b))))", v.Sort, v.Sort, fn, fn, fn, fn))
			return Val{T: fmt.Sprintf("(%s %s)", fn, v.T), Sort: ts, GoT: t}
		}
		// boxing a concrete value into an interface: one injective constructor per dynamic Go type,
		// with a type tag and an inverse (used by type switches and type assertions); never nil
		fn, _, _ := x.boxFuncs(v, ts)
		r := Val{T: fmt.Sprintf("(%s %s)", fn, v.T), Sort: ts, GoT: t}
		return r
	}
	if (v.Sort == "Int" || v.Sort == "(_ BitVec 64)") && ts == "Real" {
		if v.Sort == "Int" {
			return Val{T: fmt.Sprintf("(to_real %s)", v.T), Sort: "Real", GoT: t}
		}
	}
	if v.Sort == "Real" && ts == "Int" {
		return Val{T: fmt.Sprintf("(to_int %s)", v.T), Sort: "Int", GoT: t}
	}
	panic(unsupported(fmt.Sprintf("conversion from sort %s to %s (%s)", v.Sort, ts, t)))
}

func (x *Exec) execReturn(st *State, s *ast.ReturnStmt) {
	results := x.results
	if n := len(x.inRes); n > 0 {
		results = x.inRes[n-1]
	}
	var vals []Val
	switch {
	case len(s.Results) == 0:
		for _, r := range results {
			vals = append(vals, x.getVar(st, r))
		}
	case len(s.Results) == 1 && len(results) > 1:
		vals = x.evMulti(st, s.Results[0], len(results))
	default:
		for _, e := range s.Results {
			vals = append(vals, x.ev(st, e))
		}
	}
	for i := range vals {
		vals[i] = x.convertTo(st, vals[i], results[i].Type())
	}
	x.finishReturn(st, vals)
}

func (x *Exec) finishReturn(st *State, vals []Val) {
	results := x.results
	inl := len(x.inRes) > 0
	if inl {
		results = x.inRes[len(x.inRes)-1]
	}
	for i, r := range results {
		st.vars[r] = x.name(r.Name(), vals[i])
	}
	if !inl {
		// run deferred calls (LIFO)
		ds := st.defers
		st.defers = nil
		for i := len(ds) - 1; i >= 0; i-- {
			x.runDeferred(st, ds[i])
		}
	}
	out := make([]Val, len(results))
	for i, r := range results {
		out[i] = st.vars[r]
	}
	rs := &retState{st: st, vals: out}
	if !inl && x.dry == 0 && x.contract != nil && x.contract.Opts["own"] {
		// every lock this function took is released (directly or by a deferred call) when it returns
		var still []string
		for k, v := range st.held {
			if v && !strings.HasSuffix(k, "#w") {
				still = append(still, k)
			}
		}
		sort.Strings(still)
		goal, what := "true", "no lock taken by this function is still held at this return"
		if len(still) > 0 {
			goal = "false"
			what += " (still held: " + strings.Join(still, ", ") + ": every later Lock of it blocks forever)"
		}
		x.counts["lock.release"]++
		x.assertNamed(st, fmt.Sprintf("lock.release.%d", x.counts["lock.release"]), "lock", goal, what, x.posn(x.curPos))
	}
	if !inl && x.dry == 0 {
		// reachability probe for this return (informational: reported as UNREACHABLE when unsat)
		x.counts["vacuity.ret"]++
		o := &Obl{Name: fmt.Sprintf("%s#vacuity.ret.%d", x.fname, x.counts["vacuity.ret"]), Class: "vacuity-ret", PC: st.pc, Goal: "false", Func: x.fname, Vacuity: true, Pos: x.posn(x.curPos), Desc: "this return is reachable"}
		x.vc.addObl(o)
	}
	if inl {
		x.inRets[len(x.inRets)-1] = append(x.inRets[len(x.inRets)-1], rs)
	} else {
		x.returns = append(x.returns, rs)
	}
}

func (x *Exec) execDefer(st *State, s *ast.DeferStmt) {
	if lit, ok := s.Call.Fun.(*ast.FuncLit); ok {
		st.defers = append(st.defers, deferred{lit: lit, call: s.Call})
		return
	}
	if x.isDroppedCall(s.Call) {
		return
	}
	st.defers = append(st.defers, deferred{call: s.Call})
}

func (x *Exec) runDeferred(st *State, d deferred) {
	if d.lit != nil {
		// deferred closure: executed inline; a recover() inside makes the function undecided
		x.inlineLit(st, d.lit, nil)
		return
	}
	x.evCall(st, d.call)
}

func (x *Exec) execSwitch(st *State, s *ast.SwitchStmt, label string) *flow {
	out := newFlow()
	if s.Init != nil {
		st = x.execStmt(st, s.Init, "").normal
	}
	var tag *Val
	if s.Tag != nil {
		t := x.ev(st, s.Tag)
		t = x.name("tag", t)
		tag = &t
	}
	var ends []*State
	rest := st // state in which no earlier case matched
	var defaultClause *ast.CaseClause
	for _, c := range s.Body.List {
		cc := c.(*ast.CaseClause)
		if cc.List == nil {
			defaultClause = cc
			continue
		}
		var conds []string
		for _, e := range cc.List {
			if tag != nil {
				v := x.ev(rest, e)
				conds = append(conds, x.equalVals(rest, *tag, v))
			} else {
				conds = append(conds, x.evCond(rest, e))
			}
		}
		cond := or(conds...)
		cst := rest.clone()
		x.assume(cst, cond)
		x.assume(rest, not(cond))
		for _, b := range cc.Body {
			if br, ok := b.(*ast.BranchStmt); ok && br.Tok == token.FALLTHROUGH {
				panic(unsupported("fallthrough"))
			}
		}
		f := x.execBlock(cst, cc.Body)
		ends = append(ends, f.normal)
		ends = append(ends, f.breaks[""]...)
		if label != "" {
			ends = append(ends, f.breaks[label]...)
			delete(f.breaks, label)
		}
		delete(f.breaks, "")
		out.absorb(f)
	}
	if defaultClause != nil {
		f := x.execBlock(rest, defaultClause.Body)
		ends = append(ends, f.normal)
		ends = append(ends, f.breaks[""]...)
		if label != "" {
			ends = append(ends, f.breaks[label]...)
			delete(f.breaks, label)
		}
		delete(f.breaks, "")
		out.absorb(f)
	} else {
		ends = append(ends, rest)
	}
	out.normal = x.merge(ends)
	return out
}

func (x *Exec) execTypeSwitch(st *State, s *ast.TypeSwitchStmt, label string) *flow {
	out := newFlow()
	if s.Init != nil {
		st = x.execStmt(st, s.Init, "").normal
	}
	// evaluate the operand
	var operand ast.Expr
	switch a := s.Assign.(type) {
	case *ast.AssignStmt:
		operand = a.Rhs[0].(*ast.TypeAssertExpr).X
	case *ast.ExprStmt:
		operand = a.X.(*ast.TypeAssertExpr).X
	}
	opv := x.ev(st, operand)
	opv = x.name("tsw", opv)
	isIface := func(t types.Type) bool {
		_, ok := t.Underlying().(*types.Interface)
		return ok
	}
	precise := x.vc.info(opv.Sort) != nil && x.vc.info(opv.Sort).Kind == kOpaque
	// condition of a clause: the dynamic type tag equals one of the listed concrete types (nil: the nil interface)
	clauseCond := func(cc *ast.CaseClause) (string, bool) {
		var ds []string
		for _, te := range cc.List {
			if id, ok := te.(*ast.Ident); ok && id.Name == "nil" {
				ds = append(ds, eq(opv.T, x.vc.nilTerm(opv.Sort)))
				continue
			}
			tt := x.typeOf(te)
			if tt == nil || isIface(tt) {
				return "", false
			}
			_, _, id := x.boxFuncsFor(x.vc.sortOf(tt), tt, opv.Sort)
			ds = append(ds, fmt.Sprintf("(= (dyntag_%s %s) %d)", opv.Sort, opv.T, id))
		}
		return or(ds...), true
	}
	allPrecise := precise
	for _, c := range s.Body.List {
		if cc := c.(*ast.CaseClause); cc.List != nil {
			if _, ok := clauseCond(cc); !ok {
				allPrecise = false
			}
		}
	}
	if !allPrecise {
		x.vc.note("type switch with interface-typed cases: clauses taken nondeterministically, bound variable unconstrained")
	}
	var ends []*State
	hasDefault := false
	rest := st
	var defaultClause *ast.CaseClause
	for _, c := range s.Body.List {
		cc := c.(*ast.CaseClause)
		if cc.List == nil {
			hasDefault = true
			defaultClause = cc
			if allPrecise {
				continue
			}
		}
		cst := rest.clone()
		if allPrecise {
			cond, _ := clauseCond(cc)
			x.assume(cst, cond)
			x.assume(rest, not(cond))
			if obj := x.implicitObj(cc); obj != nil {
				if len(cc.List) == 1 {
					if tt := x.typeOf(cc.List[0]); tt != nil && !isIface(tt) {
						_, unbox, _ := x.boxFuncsFor(x.vc.sortOf(tt), tt, opv.Sort)
						cst.vars[obj] = Val{T: fmt.Sprintf("(%s %s)", unbox, opv.T), Sort: x.vc.sortOf(tt), GoT: tt}
					} else {
						cst.vars[obj] = opv
					}
				} else {
					cst.vars[obj] = opv
				}
			}
		} else {
			br := x.vc.fresh("tsw", "Bool")
			x.assume(cst, br)
			if obj := x.implicitObj(cc); obj != nil {
				cst.vars[obj] = x.havocVal(cst, obj.Name(), obj.Type())
			}
		}
		f := x.execBlock(cst, cc.Body)
		ends = append(ends, f.normal)
		ends = append(ends, f.breaks[""]...)
		delete(f.breaks, "")
		out.absorb(f)
	}
	if allPrecise {
		if defaultClause != nil {
			if obj := x.implicitObj(defaultClause); obj != nil {
				rest.vars[obj] = opv
			}
			f := x.execBlock(rest, defaultClause.Body)
			ends = append(ends, f.normal)
			ends = append(ends, f.breaks[""]...)
			delete(f.breaks, "")
			out.absorb(f)
		} else {
			ends = append(ends, rest)
		}
		out.normal = x.merge(ends)
		return out
	}
	if !hasDefault {
		ends = append(ends, st)
	}
	out.normal = x.merge(ends)
	return out
}

func (x *Exec) implicitObj(cc *ast.CaseClause) types.Object {
	if o, ok := x.pkg.TypesInfo.Implicits[cc]; ok {
		return o
	}
	for _, p := range x.prog.pkgs {
		if o, ok := p.TypesInfo.Implicits[cc]; ok {
			return o
		}
	}
	return nil
}

func (x *Exec) execSelect(st *State, s *ast.SelectStmt, label string) *flow {
	out := newFlow()
	x.vc.note("select: every ready clause taken nondeterministically, received values unconstrained")
	var ends []*State
	for _, c := range s.Body.List {
		cc := c.(*ast.CommClause)
		cst := st.clone()
		br := x.vc.fresh("sel", "Bool")
		x.assume(cst, br)
		if cc.Comm != nil {
			switch cm := cc.Comm.(type) {
			case *ast.AssignStmt:
				// v := <-ch  /  v, ok := <-ch
				for _, l := range cm.Lhs {
					if id, ok := l.(*ast.Ident); ok && id.Name != "_" {
						if obj := x.objOf(id); obj != nil {
							x.setVar(cst, obj, x.havocVal(cst, id.Name, obj.Type()))
						}
					}
				}
			case *ast.ExprStmt:
				// <-ch
				if ue, ok := unparen(cm.X).(*ast.UnaryExpr); ok && ue.Op == token.ARROW {
					if c := x.recvContract(ue.X); c != nil {
						x.applyRecv(cst, ue.X, c, false, cm.Pos())
					}
					x.noteCtxDone(cst, ue.X)
				}
			case *ast.SendStmt:
				x.ev(cst, cm.Value)
			}
		}
		f := x.execBlock(cst, cc.Body)
		ends = append(ends, f.normal)
		ends = append(ends, f.breaks[""]...)
		if label != "" {
			ends = append(ends, f.breaks[label]...)
			delete(f.breaks, label)
		}
		delete(f.breaks, "")
		out.absorb(f)
	}
	out.normal = x.merge(ends)
	return out
}

// ---- loops ----

type loopCtx struct {
	n     int
	spec  *LoopSpec
	names map[string]Val // extra names visible in invariants (index, seen, cnt)
	pos   token.Pos
	body  *ast.BlockStmt
	head  *State // the state at the head of the iteration being executed (after the invariants are assumed)
	headNames map[string]Val // the loop names (counters) at that point
}

func (x *Exec) loopSpec(pos token.Pos, fingerprint string) (int, *LoopSpec) {
	x.loopN++
	n := x.loopN
	if x.contract == nil || len(x.inRes) > 0 {
		return n, nil
	}
	sp := x.contract.Loops[n]
	if sp != nil && sp.Fingerprint != "" {
		if fpKey(sp.Fingerprint) != fpKey(fingerprint) {
			panic(unsupported(fmt.Sprintf("stale loop fingerprint for loop %d: contract says %q, code has %q", n, sp.Fingerprint, fingerprint)))
		}
	}
	return n, sp
}

func normWS(s string) string { return strings.Join(strings.Fields(s), " ") }

// fpKey: what a loop fingerprint is compared on. A range loop is identified by its range expression;
// a for loop by the identifiers of its condition (so that a changed bound or operator keeps the loop
// under its contract and is judged by the invariants, while a different loop is reported as stale).
func fpKey(fp string) string {
	fp = normWS(fp)
	if strings.HasPrefix(fp, "range ") {
		return fp
	}
	var ids []string
	seen := map[string]bool{}
	cur := ""
	flush := func() {
		if cur != "" && !(cur[0] >= '0' && cur[0] <= '9') && cur != "for" && cur != "len" && cur != "nil" && cur != "true" && cur != "false" && !seen[cur] {
			seen[cur] = true
			ids = append(ids, cur)
		}
		cur = ""
	}
	for _, r := range fp {
		if r == '_' || r >= 'a' && r <= 'z' || r >= 'A' && r <= 'Z' || r >= '0' && r <= '9' {
			cur += string(r)
		} else {
			flush()
		}
	}
	flush()
	sort.Strings(ids)
	return "for " + strings.Join(ids, " ")
}

func (x *Exec) checkInvs(st *State, lc *loopCtx, phase string) {
	if phase == "pres" && lc.head != nil && x.dry == 0 && x.contract != nil && x.contract.Opts["own"] && len(x.inRes) == 0 {
		// lock ownership: an iteration gives back every lock it took (the next one starts where this one started)
		var extra []string
		for k, v := range st.held {
			if v && !strings.HasSuffix(k, "#w") && !lc.head.held[k] {
				extra = append(extra, k)
			}
		}
		sort.Strings(extra)
		for _, k := range extra {
			x.counts["lock.loop"]++
			x.assertNamed(st, fmt.Sprintf("lock.loop.%d", x.counts["lock.loop"]), "lock", "false",
				"every iteration releases the locks it took ("+k+" is still held when the next iteration starts)", x.posn(lc.pos))
		}
	}
	if lc.spec == nil {
		return
	}
	for i, inv := range lc.spec.Invariants {
		env := x.specEnvAt(st, lc.body.Lbrace+1)
		for k, v := range lc.names {
			env.names[k] = v
		}
		for j, cj := range splitConj(inv.Expr) {
			g := env.boolean(cj)
			name := fmt.Sprintf("inv%d.%s.%d", lc.n, phase, i+1)
			if inv.Label != "" {
				name = fmt.Sprintf("inv%d.%s.%s", lc.n, phase, inv.Label)
			}
			if j > 0 {
				name += fmt.Sprintf(".%d", j+1)
			}
			x.assertNamed(st, name, "inv-"+phase, g, exprText(cj), token.Position{Filename: inv.File, Line: inv.Line})
		}
	}
	if phase != "pres" || lc.head == nil {
		return
	}
	// transition relation of one iteration
	for i, sc := range lc.spec.Steps {
		env := x.specEnvAt(st, lc.body.Lbrace+1)
		for k, v := range lc.names {
			env.names[k] = v
		}
		env.prev = lc.head
		env.prevNames = lc.headNames
		for j, cj := range splitConj(sc.Expr) {
			g := env.boolean(cj)
			name := fmt.Sprintf("step%d.%d", lc.n, i+1)
			if sc.Label != "" {
				name = fmt.Sprintf("step%d.%s", lc.n, sc.Label)
			}
			if j > 0 {
				name += fmt.Sprintf(".%d", j+1)
			}
			x.assertNamed(st, name, "loop-step", g, "every iteration: "+exprText(cj), token.Position{Filename: sc.File, Line: sc.Line})
		}
	}
}

// checkBreaks: on_break clauses, at every state in which the loop is left by a break
func (x *Exec) checkBreaks(brk []*State, lc *loopCtx) {
	if lc.spec == nil || len(lc.spec.OnBreak) == 0 {
		return
	}
	for bi, b := range brk {
		if b == nil {
			continue
		}
		for i, oc := range lc.spec.OnBreak {
			env := x.specEnvAt(b, lc.body.Lbrace+1)
			for k, v := range lc.names {
				env.names[k] = v
			}
			env.prev = lc.head
			env.prevNames = lc.headNames
			for j, cj := range splitConj(oc.Expr) {
				g := env.boolean(cj)
				name := fmt.Sprintf("break%d.%d", lc.n, i+1)
				if oc.Label != "" {
					name = fmt.Sprintf("break%d.%s", lc.n, oc.Label)
				}
				if j > 0 {
					name += fmt.Sprintf(".%d", j+1)
				}
				if bi > 0 {
					name += fmt.Sprintf("@%d", bi+1)
				}
				x.assertNamed(b, name, "loop-break", g, "whenever the loop is left by a break: "+exprText(cj), token.Position{Filename: oc.File, Line: oc.Line})
			}
		}
	}
}

func (x *Exec) assumeInvs(st *State, lc *loopCtx) {
	if lc.spec == nil {
		lc.head = st.clone() // (the locks held at the head are compared with those at the end of the iteration)
		return
	}
	for _, inv := range lc.spec.Invariants {
		env := x.specEnvAt(st, lc.body.Lbrace+1)
		for k, v := range lc.names {
			env.names[k] = v
		}
		x.assume(st, env.boolean(inv.Expr))
	}
	lc.head = st.clone()
	lc.headNames = map[string]Val{}
	for k, v := range lc.names {
		lc.headNames[k] = v
	}
}

// modifiedBy runs the loop body once in dry mode and reports which state keys it may change.
func (x *Exec) modifiedBy(st *State, run func(s *State) []*State) (map[types.Object]bool, map[string]bool) {
	x.dry++
	savedLoop := x.loopN
	savedRet := len(x.returns)
	var savedIn int
	if n := len(x.inRets); n > 0 {
		savedIn = len(x.inRets[n-1])
	}
	savedCounts := map[string]int{}
	for k, v := range x.counts {
		savedCounts[k] = v
	}
	base := st.clone()
	outs := run(base.clone())
	x.dry--
	x.loopN = savedLoop
	x.returns = x.returns[:savedRet]
	if n := len(x.inRets); n > 0 {
		x.inRets[n-1] = x.inRets[n-1][:savedIn]
	}
	x.counts = savedCounts
	vars := map[types.Object]bool{}
	keys := map[string]bool{}
	for _, o := range outs {
		if o == nil {
			continue
		}
		for k, v := range o.vars {
			if b, ok := st.vars[k]; ok && b.T != v.T {
				vars[k] = true
			}
		}
		for k, v := range o.heap {
			b, ok := st.heap[k]
			if !ok {
				if iv, ok2 := x.prog.tmpInit[x][k]; ok2 {
					b, ok = iv, true
				}
			}
			if !ok || b.T != v.T {
				keys[k] = true
			}
		}
	}
	return vars, keys
}

func (x *Exec) havocMods(st *State, vars map[types.Object]bool, keys map[string]bool) {
	objs := make([]types.Object, 0, len(vars))
	for o := range vars {
		objs = append(objs, o)
	}
	sort.Slice(objs, func(i, j int) bool { return objs[i].Pos() < objs[j].Pos() })
	for _, o := range objs {
		old := st.vars[o]
		if x.boxed[o] {
			continue // the reference itself does not change
		}
		nv := x.havocVal(st, o.Name(), o.Type())
		if old.Sort != "" && old.Sort != nv.Sort {
			nv = Val{T: x.vc.fresh(o.Name(), old.Sort), Sort: old.Sort, GoT: old.GoT}
		}
		st.vars[o] = nv
	}
	ks := make([]string, 0, len(keys))
	for k := range keys {
		ks = append(ks, k)
	}
	sort.Strings(ks)
	for _, k := range ks {
		if strings.HasPrefix(k, "#") {
			continue
		}
		x.havocKey(st, k)
	}
	// references held by the havocked variables (directly or in a slice/map) were allocated in earlier
	// iterations: they are older than anything allocated from here on
	for _, o := range objs {
		if !x.boxed[o] {
			x.knownRef(st, st.vars[o])
		}
	}
}

func (x *Exec) execFor(st *State, s *ast.ForStmt, label string) *flow {
	out := newFlow()
	fp := "for"
	if s.Cond != nil {
		fp = "for " + x.prog.text(s.Cond)
	}
	n, spec := x.loopSpec(s.Pos(), fp)
	if s.Init != nil {
		st = x.execStmt(st, s.Init, "").normal
	}
	lc := &loopCtx{n: n, spec: spec, names: map[string]Val{}, pos: s.Pos(), body: s.Body}
	x.curLoops = append(x.curLoops, lc)
	defer func() { x.curLoops = x.curLoops[:len(x.curLoops)-1] }()
	iter := func(h *State) (exit *State, ends []*State, fl *flow) {
		c := "true"
		if s.Cond != nil {
			c = x.evCond(h, s.Cond)
		}
		bodySt := h.clone()
		x.assume(bodySt, c)
		exit = h
		x.assume(exit, not(c))
		f := x.execBlock(bodySt, s.Body.List)
		conts := append([]*State{f.normal}, f.continues[""]...)
		if label != "" {
			conts = append(conts, f.continues[label]...)
			delete(f.continues, label)
		}
		delete(f.continues, "")
		end := x.merge(conts)
		if end != nil && s.Post != nil {
			end = x.execStmt(end, s.Post, "").normal
		}
		brk := f.breaks[""]
		if label != "" {
			brk = append(brk, f.breaks[label]...)
			delete(f.breaks, label)
		}
		delete(f.breaks, "")
		return exit, append([]*State{end}, brk...), f
	}
	vars, keys := x.modifiedBy(st, func(b *State) []*State {
		_, ends, _ := iter(b)
		return ends
	})
	x.checkInvs(st, lc, "init")
	h := st
	x.havocMods(h, vars, keys)
	x.assumeInvs(h, lc)
	exit, ends, f := iter(h)
	out.absorb(f)
	if ends[0] != nil {
		x.checkInvs(ends[0], lc, "pres")
	}
	x.checkBreaks(ends[1:], lc)
	out.normal = x.merge(append([]*State{exit}, ends[1:]...))
	if s.Cond == nil {
		// infinite loop: only breaks leave it
		out.normal = x.merge(ends[1:])
	}
	return out
}

func (x *Exec) execRange(st *State, s *ast.RangeStmt, label string) *flow {
	out := newFlow()
	n, spec := x.loopSpec(s.Pos(), "range "+x.prog.text(s.X))
	lc := &loopCtx{n: n, spec: spec, names: map[string]Val{}, pos: s.Pos(), body: s.Body}
	x.curLoops = append(x.curLoops, lc)
	defer func() { x.curLoops = x.curLoops[:len(x.curLoops)-1] }()
	xt := x.typeOf(s.X)
	coll := x.ev(st, s.X)
	coll = x.name("rng", coll)
	assignKV := func(b *State, k, v *Val) {
		if s.Key != nil && k != nil {
			if id, ok := s.Key.(*ast.Ident); ok {
				if id.Name != "_" {
					x.setVar(b, x.objOf(id), *k)
				}
			} else {
				x.storeLV(b, x.lvOf(b, s.Key), *k)
			}
		}
		if s.Value != nil && v != nil {
			if id, ok := s.Value.(*ast.Ident); ok {
				if id.Name != "_" {
					x.setVar(b, x.objOf(id), *v)
				}
			} else {
				x.storeLV(b, x.lvOf(b, s.Value), *v)
			}
		}
	}
	finish := func(f *flow) (end *State, brk []*State) {
		conts := append([]*State{f.normal}, f.continues[""]...)
		if label != "" {
			conts = append(conts, f.continues[label]...)
			delete(f.continues, label)
		}
		delete(f.continues, "")
		end = x.merge(conts)
		brk = f.breaks[""]
		if label != "" {
			brk = append(brk, f.breaks[label]...)
			delete(f.breaks, label)
		}
		delete(f.breaks, "")
		return
	}
	idxName := fmt.Sprintf("idx%d", n)
	// rngN: the value ranged over (evaluated once, before the loop), for invariants of loops over a call result
	lc.names[fmt.Sprintf("rng%d", n)] = coll
	if x.dry == 0 && len(x.inRes) == 0 {
		if x.rngFinal == nil {
			x.rngFinal = map[string]Val{}
		}
		x.rngFinal[fmt.Sprintf("rng%d", n)] = coll // also visible in ensures clauses (the value the loop ranged over)
	}
	keyName := ""
	if id, ok := s.Key.(*ast.Ident); ok && id.Name != "_" {
		keyName = id.Name
	}
	is := x.vc.intSort()
	switch u := xt.Underlying().(type) {
	case *types.Slice, *types.Array, *types.Pointer:
		var length string
		var elemAt func(i string) Val
		switch uu := u.(type) {
		case *types.Slice:
			length = x.vc.slLen(coll)
			elemAt = func(i string) Val { return x.vc.slIndex(coll, i) }
		case *types.Array:
			length = x.vc.intLit(uu.Len())
			es := x.vc.sortOf(uu.Elem())
			elemAt = func(i string) Val {
				return Val{T: fmt.Sprintf("(select %s %s)", coll.T, i), Sort: es, GoT: uu.Elem()}
			}
		default:
			panic(unsupported("range over pointer to array"))
		}
		intT := types.Typ[types.Int]
		setIdx := func(names map[string]Val, i string) {
			v := Val{T: i, Sort: is, GoT: intT}
			names[idxName] = v
			if keyName != "" {
				names[keyName] = v
			}
		}
		iter := func(h *State, idx string) (*State, []*State, *flow) {
			b := h.clone()
			x.assume(b, x.vc.cmp("<", idx, length, true))
			kv := Val{T: idx, Sort: is, GoT: intT}
			ev := elemAt(idx)
			assignKV(b, &kv, &ev)
			f := x.execBlock(b, s.Body.List)
			end, brk := finish(f)
			return end, brk, f
		}
		setIdx(lc.names, x.vc.intLit(0))
		vars, keys := x.modifiedBy(st, func(b *State) []*State {
			end, brk, _ := iter(b, x.vc.intLit(0))
			return append([]*State{end}, brk...)
		})
		x.checkInvs(st, lc, "init")
		h := st
		x.havocMods(h, vars, keys)
		idx := x.vc.fresh(idxName, is)
		x.assume(h, and(x.vc.cmp("<=", x.vc.intLit(0), idx, true), x.vc.cmp("<=", idx, length, true)))
		setIdx(lc.names, idx)
		x.assumeInvs(h, lc)
		exit := h.clone()
		x.assume(exit, eq(idx, length))
		end, brk, f := iter(h, idx)
		out.absorb(f)
		if end != nil {
			setIdx(lc.names, x.vc.arith("+", idx, x.vc.intLit(1), true))
			x.checkInvs(end, lc, "pres")
		}
		x.checkBreaks(brk, lc)
		out.normal = x.merge(append([]*State{exit}, brk...))
	case *types.Map:
		inf := x.vc.info(coll.Sort)
		seenSort := fmt.Sprintf("(Array %s Bool)", inf.Key)
		seenName, cntName := fmt.Sprintf("seen%d", n), fmt.Sprintf("cnt%d", n)
		setNames := func(seen, cnt string) {
			sv := x.wrapSet(Val{T: seen, Sort: seenSort}, inf.Key)
			lc.names[seenName] = sv
			lc.names["seen"] = sv
			cv := Val{T: cnt, Sort: is, GoT: types.Typ[types.Int]}
			lc.names[cntName] = cv
			lc.names["cnt"] = cv
		}
		iter := func(h *State, seen string) (*State, []*State, *flow, string) {
			b := h.clone()
			k := x.vc.fresh("key", inf.Key)
			x.assume(b, and(x.vc.mapDom(coll, k), not(fmt.Sprintf("(select %s %s)", seen, k))))
			kv := Val{T: k, Sort: inf.Key, GoT: u.Key()}
			vv := x.vc.mapVal(coll, k)
			assignKV(b, &kv, &vv)
			f := x.execBlock(b, s.Body.List)
			end, brk := finish(f)
			return end, brk, f, k
		}
		emptySeen := fmt.Sprintf("((as const %s) false)", seenSort)
		vars, keys := x.modifiedBy(st, func(b *State) []*State {
			end, brk, _, _ := iter(b, emptySeen)
			return append([]*State{end}, brk...)
		})
		setNames(emptySeen, x.vc.intLit(0))
		x.checkInvs(st, lc, "init")
		h := st
		x.havocMods(h, vars, keys)
		seen := x.vc.fresh(seenName, seenSort)
		cnt := x.vc.fresh(cntName, is)
		kq := "k!q"
		x.assume(h, and(
			fmt.Sprintf("(forall ((%s %s)) (=> (select %s %s) %s))", kq, inf.Key, seen, kq, x.vc.mapDom(coll, kq)),
			x.vc.cmp("<=", x.vc.intLit(0), cnt, true), x.vc.cmp("<=", cnt, x.vc.mapCard(coll), true)))
		setNames(seen, cnt)
		x.assumeInvs(h, lc)
		exit := h.clone()
		x.assume(exit, and(
			fmt.Sprintf("(forall ((%s %s)) (=> %s (select %s %s)))", kq, inf.Key, x.vc.mapDom(coll, kq), seen, kq),
			eq(cnt, x.vc.mapCard(coll))))
		x.assume(h, x.vc.cmp("<", cnt, x.vc.mapCard(coll), true))
		end, brk, f, k := iter(h, seen)
		out.absorb(f)
		if end != nil {
			setNames(fmt.Sprintf("(store %s %s true)", seen, k), x.vc.arith("+", cnt, x.vc.intLit(1), true))
			x.checkInvs(end, lc, "pres")
		}
		x.checkBreaks(brk, lc)
		out.normal = x.merge(append([]*State{exit}, brk...))
	default:
		// channels, strings, functions: body executed for an unconstrained element, zero or more times
		x.vc.note(fmt.Sprintf("range over %s: elements unconstrained", xt))
		iter := func(h *State) (*State, []*State, *flow) {
			b := h.clone()
			var kvp, vvp *Val
			if s.Key != nil {
				kv := x.havocVal(b, "rk", x.typeOf(s.Key))
				kvp = &kv
			}
			if s.Value != nil {
				vv := x.havocVal(b, "rv", x.typeOf(s.Value))
				vvp = &vv
			}
			assignKV(b, kvp, vvp)
			f := x.execBlock(b, s.Body.List)
			end, brk := finish(f)
			return end, brk, f
		}
		vars, keys := x.modifiedBy(st, func(b *State) []*State {
			end, brk, _ := iter(b)
			return append([]*State{end}, brk...)
		})
		x.checkInvs(st, lc, "init")
		h := st
		x.havocMods(h, vars, keys)
		x.assumeInvs(h, lc)
		exit := h.clone()
		end, brk, f := iter(h)
		out.absorb(f)
		if end != nil {
			x.checkInvs(end, lc, "pres")
		}
		x.checkBreaks(brk, lc)
		out.normal = x.merge(append([]*State{exit}, brk...))
	}
	return out
}

// writtenThrough: the function stores into (or deletes from) the map through this local somewhere
func (x *Exec) writtenThrough(obj types.Object) bool {
	if x.body == nil {
		return false
	}
	found := false
	ast.Inspect(x.body, func(n ast.Node) bool {
		switch s := n.(type) {
		case *ast.AssignStmt:
			for _, l := range s.Lhs {
				if ix, ok := unparen(l).(*ast.IndexExpr); ok {
					if id, ok := unparen(ix.X).(*ast.Ident); ok && x.objOf(id) == obj {
						found = true
					}
				}
			}
		case *ast.CallExpr:
			if id, ok := s.Fun.(*ast.Ident); ok && id.Name == "delete" && len(s.Args) == 2 {
				if a, ok := unparen(s.Args[0]).(*ast.Ident); ok && x.objOf(a) == obj {
					found = true
				}
			}
		}
		return !found
	})
	return found
}

// aliasable: a map-typed local initialised from a map element or a field holds a reference to
// that map; later writes through the local must be visible in the container.
func (x *Exec) aliasable(obj types.Object, rhs ast.Expr) bool {
	if _, ok := obj.Type().Underlying().(*types.Map); !ok {
		return false
	}
	switch r := unparen(rhs).(type) {
	case *ast.IndexExpr:
		_, ok := x.typeOf(r.X).Underlying().(*types.Map)
		return ok
	case *ast.SelectorExpr:
		if sel := x.selOf(r); sel != nil && sel.Kind() == types.FieldVal {
			return true
		}
	case *ast.StarExpr:
		// m := *p with p a pointer to a map: m and *p are the same map object
		return true
	}
	return false
}

// boxFuncs declares (once) the constructor, inverse and tag of boxing values of v's Go type into
// the interface sort ts. Returns (box, unbox, tag id).
func (x *Exec) boxFuncs(v Val, ts string) (string, string, int) {
	return x.boxFuncsFor(v.Sort, v.GoT, ts)
}

func (x *Exec) boxFuncsFor(srcSort string, got any, ts string) (string, string, int) {
	key := srcSort
	if t, ok := got.(types.Type); ok && t != nil {
		if _, isIface := t.Underlying().(*types.Interface); !isIface {
			key = typeKey(t)
		}
	}
	name := sanitize(key)
	if len(name) > 70 {
		name = name[len(name)-70:]
	}
	box := "box_" + name + "_to_" + ts
	unbox := "unbox_" + name + "_from_" + ts
	tag := "dyntag_" + ts
	if x.vc.tagIDs == nil {
		x.vc.tagIDs = map[string]int{}
	}
	id, seen := x.vc.tagIDs[key+"|"+ts]
	if !seen {
		id = len(x.vc.tagIDs) + 1
		x.vc.tagIDs[key+"|"+ts] = id
		x.vc.declFun(box, []string{srcSort}, ts)
		x.vc.declFun(unbox, []string{ts}, srcSort)
		x.vc.declFun(tag, []string{ts}, "Int")
		x.vc.fact(fmt.Sprintf("(forall ((a!b %s)) (! (and (= (%s (%s a!b)) a!b) (= (%s (%s a!b)) %d) (not (= (%s a!b) %s))) :pattern ((%s a!b))))",
			srcSort, unbox, box, tag, box, id, box, x.vc.nilTerm(ts), box))
		x.vc.fact(fmt.Sprintf("(forall ((v!b %s)) (! (=> (= (%s v!b) %d) (= (%s (%s v!b)) v!b)) :pattern ((%s v!b))))", ts, tag, id, box, unbox, unbox))
		x.vc.termFact(fmt.Sprintf("(= (%s %s) 0)", tag, x.vc.nilTerm(ts)))
	}
	return box, unbox, id
}

// noteCtxDone: a completed receive from <ctx>.Done() means that context is done from here on (ghost set G:$ctxdone);
// context.Context.Err() is non-nil for a context in that set (libModel) and unconstrained otherwise.
func (x *Exec) noteCtxDone(st *State, ch ast.Expr) {
	call, ok := unparen(ch).(*ast.CallExpr)
	if !ok {
		return
	}
	sel, ok := unparen(call.Fun).(*ast.SelectorExpr)
	if !ok || sel.Sel.Name != "Done" || len(call.Args) != 0 {
		return
	}
	t := x.typeOf(sel.X)
	if t == nil || types.TypeString(t, nil) != "context.Context" {
		return
	}
	c := x.ev(st, sel.X)
	setSort := fmt.Sprintf("(Array %s Bool)", c.Sort)
	cur := x.lookupHeap(st, "G:$ctxdone", setSort)
	nv := Val{T: fmt.Sprintf("(store %s %s true)", cur.T, c.T), Sort: setSort}
	st.heap["G:$ctxdone"] = x.nameAlways("ctxdone", nv)
}

// execSpawn: a go statement. The spawned body is not verified and has no effect on the caller's state, with one
// exception: WHAT is spawned is call history. The calls the statement makes - the spawned call itself, or the
// leading call statements of a spawned function literal - are looked at in "spawn mode": the caller's at_call
// assertions for the callee are checked and the callee's call-history ghosts (records / counts) are updated; no
// precondition, frame or postcondition of the callee is used. A variable the literal captures that the enclosing
// function assigns again (in particular the per-loop variables of the enclosing for/range statements, which all
// iterations share in a module whose go directive is older than 1.22) has an arbitrary value when the goroutine
// runs: it is havocked for the spawned calls.
func (x *Exec) execSpawn(st *State, s *ast.GoStmt) {
	var args []Val
	for _, a := range s.Call.Args {
		if _, isLit := a.(*ast.FuncLit); !isLit {
			args = append(args, x.ev(st, a))
		} else {
			args = append(args, Val{})
		}
	}
	if x.contract == nil || x.dry > 0 || len(x.inRes) > 0 || x.spawnMode > 0 {
		x.vc.note("go statement dropped (spawned body not verified)")
		return
	}
	saved := st.clone()
	x.spawnMode++
	func() {
		defer func() {
			x.spawnMode--
			if r := recover(); r != nil {
				if _, isU := r.(unsupportedErr); isU {
					x.vc.note("go statement dropped (spawned call outside the modelled subset)")
					*st = *saved
					return
				}
				panic(r)
			}
		}()
		switch f := unparen(s.Call.Fun).(type) {
		case *ast.FuncLit:
			i := 0
			for _, fl := range f.Type.Params.List {
				for _, n := range fl.Names {
					if obj := x.objOf(n); obj != nil && n.Name != "_" && i < len(args) {
						st.vars[obj] = args[i]
					}
					i++
				}
			}
			x.havocUnstableCaptures(st, f)
			for _, stmt := range f.Body.List {
				if _, isDefer := stmt.(*ast.DeferStmt); isDefer {
					continue
				}
				if es, ok := stmt.(*ast.ExprStmt); ok {
					if call, ok := unparen(es.X).(*ast.CallExpr); ok {
						x.evCall(st, call)
						continue
					}
				}
				x.vc.note("go statement: the spawned literal is modelled up to its first statement that is not a call")
				break
			}
		default:
			x.evCall(st, s.Call)
		}
	}()
	// nothing the spawned calls did is visible to the caller, except the call-history ghosts (and the facts
	// that define their new values, which live in the path condition)
	pc := st.pc
	for k, v := range st.heap {
		if strings.HasPrefix(k, "G:") {
			saved.heap[k] = v
		}
	}
	*st = *saved
	st.pc = pc
	x.vc.note("go statement: spawned body not verified (call-site assertions and call-history ghosts only)")
}

// havocUnstableCaptures gives an arbitrary value to every variable of the enclosing function that the literal
// reads and that the enclosing function assigns other than by its declaration (or declares as a loop variable).
func (x *Exec) havocUnstableCaptures(st *State, lit *ast.FuncLit) {
	if x.body == nil {
		return
	}
	unstable := map[types.Object]bool{}
	mark := func(e ast.Expr) {
		if id, ok := unparen(e).(*ast.Ident); ok {
			if o := x.objOf(id); o != nil {
				unstable[o] = true
			}
		}
	}
	ast.Inspect(x.body, func(n ast.Node) bool {
		switch v := n.(type) {
		case *ast.AssignStmt:
			if v.Tok != token.DEFINE {
				for _, l := range v.Lhs {
					mark(l)
				}
			} else {
				// a := redeclaration that reuses an existing variable assigns it
				for _, l := range v.Lhs {
					if id, ok := l.(*ast.Ident); ok && x.pkg.TypesInfo.Defs[id] == nil {
						mark(l)
					}
				}
			}
		case *ast.IncDecStmt:
			mark(v.X)
		case *ast.UnaryExpr:
			if v.Op == token.AND {
				mark(v.X)
			}
		case *ast.RangeStmt:
			if v.Tok == token.DEFINE && lit.Pos() >= v.Pos() && lit.End() <= v.End() {
				if v.Key != nil {
					mark(v.Key)
				}
				if v.Value != nil {
					mark(v.Value)
				}
			}
		case *ast.ForStmt:
			if lit.Pos() >= v.Pos() && lit.End() <= v.End() {
				if as, ok := v.Init.(*ast.AssignStmt); ok {
					for _, l := range as.Lhs {
						mark(l)
					}
				}
			}
		}
		return true
	})
	seen := map[types.Object]bool{}
	ast.Inspect(lit.Body, func(n ast.Node) bool {
		id, ok := n.(*ast.Ident)
		if !ok {
			return true
		}
		o, isVar := x.objOf(id).(*types.Var)
		if !isVar || seen[o] || !unstable[o] || x.isGlobal(o) || o.IsField() {
			return true
		}
		if o.Pos() >= lit.Pos() && o.Pos() <= lit.End() {
			return true // declared inside the literal
		}
		seen[o] = true
		if x.boxed[o] {
			return true // address-taken: lives in the heap; its value at spawn time is not relied on either
		}
		st.vars[o] = x.havocVal(st, "captured_"+o.Name(), o.Type())
		x.vc.note("go statement: captured variable " + o.Name() + " is assigned elsewhere in the function: arbitrary when the goroutine runs")
		return true
	})
}
