package main

// libmodel.go: models of a few library functions (errors, time, cid, mutexes).

import (
	"fmt"
	"go/ast"
	"go/types"
	"strings"
)

func (x *Exec) specialGlobal(v *types.Var) (Val, bool) {
	if v.Pkg() == nil {
		return Val{}, false
	}
	switch v.Pkg().Path() + "." + v.Name() {
	case "github.com/ipfs/go-cid.Undef":
		x.vc.sortOf(v.Type())
		return Val{T: "cid_undef", Sort: "Cid", GoT: v.Type()}, true
	}
	// exported error sentinels of libraries: distinct non-nil constants
	if isErrorType(v.Type()) && !strings.HasPrefix(v.Pkg().Path(), x.prog.modPath) {
		srt := x.vc.sortOf(v.Type())
		n := "errc_" + sanitize(v.Pkg().Name()+"_"+v.Name())
		x.vc.declConst(n, srt)
		x.vc.termFact(not(eq(n, x.vc.nilTerm(srt))))
		seen := false
		for _, o := range x.errGlobals {
			if o == n {
				seen = true
			} else {
				x.vc.termFact(not(eq(n, o)))
			}
		}
		if !seen {
			x.errGlobals = append(x.errGlobals, n)
		}
		return Val{T: n, Sort: srt, GoT: v.Type()}, true
	}
	return Val{}, false
}

func (x *Exec) now(st *State) Val {
	prev := x.lookupHeap(st, "G:$now", x.vc.intSort())
	n := x.vc.fresh("now", x.vc.intSort())
	x.assume(st, and(x.vc.cmp(">=", n, prev.T, true), x.vc.cmp(">", n, x.vc.intLit(0), true)))
	v := Val{T: n, Sort: x.vc.intSort()}
	st.heap["G:$now"] = v
	return v
}

func (x *Exec) libModel(st *State, call *ast.CallExpr, fn *types.Func, key string, recv *Val, args []Val) ([]Val, bool) {
	boolT := types.Typ[types.Bool]
	mkb := func(t string) []Val { return []Val{{T: t, Sort: "Bool", GoT: boolT}} }
	switch key {
	case "github.com/pkg/errors.Wrap", "github.com/pkg/errors.Wrapf", "github.com/pkg/errors.WithStack", "github.com/pkg/errors.WithMessage":
		// nil iff the wrapped error is nil
		rt := x.resultTypes(call)[0]
		v := x.freshVal("werr", rt)
		x.assume(st, eq(eq(v.T, x.vc.nilTerm(v.Sort)), eq(args[0].T, x.vc.nilTerm(args[0].Sort))))
		return []Val{v}, true
	case "errors.New", "fmt.Errorf", "github.com/pkg/errors.New", "github.com/pkg/errors.Errorf":
		rt := x.resultTypes(call)[0]
		v := x.freshVal("err", rt)
		x.assume(st, not(eq(v.T, x.vc.nilTerm(v.Sort))))
		return []Val{v}, true
	case "time.Now":
		v := x.now(st)
		v.GoT = x.resultTypes(call)[0]
		return []Val{v}, true
	case "time.Time.IsZero":
		return mkb(eq(recv.T, x.vc.intLit(0))), true
	case "time.Time.Before":
		return mkb(x.vc.cmp("<", recv.T, args[0].T, true)), true
	case "time.Time.After":
		return mkb(x.vc.cmp(">", recv.T, args[0].T, true)), true
	case "time.Time.Equal":
		return mkb(eq(recv.T, args[0].T)), true
	case "time.Time.Add":
		return []Val{{T: x.vc.arith("+", recv.T, args[0].T, true), Sort: recv.Sort, GoT: recv.GoT}}, true
	case "time.Time.Sub":
		return []Val{{T: x.vc.arith("-", recv.T, args[0].T, true), Sort: recv.Sort, GoT: x.resultTypes(call)[0]}}, true
	case "time.Since":
		n := x.now(st)
		return []Val{{T: x.vc.arith("-", n.T, args[0].T, true), Sort: n.Sort, GoT: x.resultTypes(call)[0]}}, true
	case "time.Time.UnixNano":
		// time.Time is modelled as nanoseconds on an arbitrary epoch; UnixNano differs by a constant
		x.vc.declConst("unix_epoch_offset", x.vc.intSort())
		return []Val{{T: x.vc.arith("-", recv.T, "unix_epoch_offset", true), Sort: recv.Sort, GoT: x.resultTypes(call)[0]}}, true
	case "time.Unix":
		if x.vc.bv {
			return nil, false
		}
		x.vc.declConst("unix_epoch_offset", x.vc.intSort())
		t := fmt.Sprintf("(+ unix_epoch_offset (* %s 1000000000) %s)", args[0].T, args[1].T)
		return []Val{{T: t, Sort: x.vc.intSort(), GoT: x.resultTypes(call)[0]}}, true
	case "context.Context.Err":
		// non-nil once a receive from this context's Done() channel completed on this path; else unknown
		rt := x.resultTypes(call)[0]
		v := x.freshVal("ctxerr", rt)
		if recv != nil {
			setSort := fmt.Sprintf("(Array %s Bool)", recv.Sort)
			cur := x.lookupHeap(st, "G:$ctxdone", setSort)
			x.assume(st, implies(fmt.Sprintf("(select %s %s)", cur.T, recv.T), not(eq(v.T, x.vc.nilTerm(v.Sort)))))
		}
		return []Val{v}, true
	case "github.com/ipfs/go-cid.Cid.Equals":
		return mkb(eq(recv.T, args[0].T)), true
	case "github.com/ipfs/go-cid.Cid.Defined":
		return mkb(not(eq(recv.T, "cid_undef"))), true
	}
	return nil, false
}

// evLockOp models sync.Mutex / sync.RWMutex operations on lvalues (lock state is an integer field).
func (x *Exec) evLockOp(st *State, call *ast.CallExpr) ([]Val, bool) {
	selx, ok := unparen(call.Fun).(*ast.SelectorExpr)
	if !ok {
		return nil, false
	}
	fn := x.calleeFunc(call)
	if fn != nil && fn.Pkg() != nil && fn.Pkg().Path() == "net/url" {
		if r := fn.Type().(*types.Signature).Recv(); r != nil && r.Type().String() == "net/url.Values" {
			return x.evURLValuesOp(st, call, selx, fn)
		}
	}
	if fn == nil || fn.Pkg() == nil || fn.Pkg().Path() != "sync" {
		return nil, false
	}
	recv := fn.Type().(*types.Signature).Recv()
	if recv == nil {
		return nil, false
	}
	rt := recv.Type().String()
	if rt == "*sync.Map" {
		return x.evSyncMapOp(st, call, selx, fn)
	}
	if rt != "*sync.Mutex" && rt != "*sync.RWMutex" {
		return nil, false
	}
	name := fn.Name()
	switch name {
	case "Lock", "Unlock", "RLock", "RUnlock":
	default:
		return nil, false
	}
	text := x.prog.text(selx.X)
	if st.held == nil {
		st.held = map[string]bool{}
	}
	x.lockEvent(st, text, name, call)
	return nil, true
}

// evSyncMapOp: sync.Map as the set of present keys
func (x *Exec) evSyncMapOp(st *State, call *ast.CallExpr, selx *ast.SelectorExpr, fn *types.Func) ([]Val, bool) {
	anyT := types.NewInterfaceType(nil, nil)
	switch fn.Name() {
	case "Load", "Store", "Delete":
	default:
		return nil, false
	}
	lv := x.lvOrTemp(st, selx.X)
	m := x.load(st, lv)
	k := x.convertTo(st, x.ev(st, call.Args[0]), anyT)
	switch fn.Name() {
	case "Load":
		v := x.havocVal(st, "loaded", anyT)
		return []Val{v, {T: fmt.Sprintf("(select %s %s)", m.T, k.T), Sort: "Bool", GoT: types.Typ[types.Bool]}}, true
	case "Store":
		x.ev(st, call.Args[1])
		nm := m
		nm.T = fmt.Sprintf("(store %s %s true)", m.T, k.T)
		x.storeLV(st, lv, nm)
		return nil, true
	case "Delete":
		nm := m
		nm.T = fmt.Sprintf("(store %s %s false)", m.T, k.T)
		x.storeLV(st, lv, nm)
		return nil, true
	}
	return nil, false
}

// evURLValuesOp: url.Values (map[string][]string) accessors with their documented meaning
func (x *Exec) evURLValuesOp(st *State, call *ast.CallExpr, selx *ast.SelectorExpr, fn *types.Func) ([]Val, bool) {
	switch fn.Name() {
	case "Get", "Set", "Del":
	default:
		return nil, false
	}
	lv := x.lvOrTemp(st, selx.X)
	m := x.load(st, lv)
	inf := x.vc.info(m.Sort)
	if inf == nil || inf.Kind != kMap {
		return nil, false
	}
	k := x.ev(st, call.Args[0])
	slSort := inf.Elem
	switch fn.Name() {
	case "Get":
		vs := x.vc.mapVal(m, k.T)
		first := x.vc.slIndex(vs, x.vc.intLit(0))
		t := ite(and(x.vc.mapDom(m, k.T), x.vc.cmp(">", x.vc.slLen(vs), x.vc.intLit(0), true)), first.T, "str_empty")
		return []Val{x.name("qget", Val{T: t, Sort: "Str", GoT: types.Typ[types.String]})}, true
	case "Set":
		v := x.ev(st, call.Args[1])
		one := x.vc.mkSlice(slSort, fmt.Sprintf("(store %s %s %s)", x.vc.constArr(x.vc.intSort(), "Str"), x.vc.intLit(0), v.T), x.vc.intLit(1), "false")
		nm := m
		nm.T = x.vc.mapStore(m, k.T, one)
		x.storeLV(st, lv, x.name("qset", nm))
		return nil, true
	case "Del":
		nm := m
		nm.T = x.vc.mapDelete(m, k.T)
		x.storeLV(st, lv, x.name("qdel", nm))
		return nil, true
	}
	return nil, false
}
