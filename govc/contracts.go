package main

// contracts.go: reading the comment-only contract files
// /repo/<pkg>/contracts_verif.go (build tag verif). See DESIGN.md §2.2.

import (
	"fmt"
	"os"
	"path/filepath"
	"regexp"
	"strconv"
	"strings"
)

type Clause struct {
	Expr *SExpr
	Src  string
	File string
	Line int
	Label string // optional label "name:" for stable obligation names
}

type LoopSpec struct {
	N           int
	Fingerprint string
	Invariants  []Clause
	Decreases   []Clause
	Steps       []Clause // step <expr>: relation between the head (prev(...)) and the end of every iteration
	OnBreak     []Clause // on_break <expr>: holds whenever the loop is left by a break ("on_break false": never left early)
}

type Contract struct {
	PkgPath  string
	PkgDir   string
	Kind     string // func, closure, interface, extern
	Header   string
	Key      string // global lookup key
	Local    string // name within package, e.g. Cluster.allocate
	Params   []string // explicit parameter names (extern/interface), optional
	Props    []string
	Opts     map[string]bool
	Requires []Clause
	Ensures  []Clause
	Modifies []string
	HasModifies bool
	Loops    map[int]*LoopSpec
	Inlines  map[string]bool // callee keys to inline in this function
	Implements []string    // interface contracts this function must satisfy
	Lets     []LetDef
	UsesLemmas []string // uses <lemma>...: lemmas (proved as their own obligations) assumed at entry
	CallAsserts map[string][]Clause // at_call <callee> assert <expr>: checked at every call of callee in this function, in the caller's scope
	Counts   []CountDef // call-history ghosts: counts <ghost> when <cond over results>
	File     string
	Line     int
}

type CountDef struct {
	Ghost  string
	Cond   *SExpr // counts: increment when Cond
	Assign *SExpr // records: ghost := Assign
	Src    string
}

type LetDef struct {
	Name string
	Expr *SExpr
	Src  string
	Line int
}

type SpecFunc struct {
	Name    string
	Params  []binder
	Ret     *SType
	Body    *SExpr
	Src     string
	PkgPath string
	File    string
	Line    int
	Rec     bool
	Opaque  bool // translated as an uninterpreted function with a defining axiom (instantiated on demand)
}

type GhostVar struct {
	Name    string
	Type    *SType
	PkgPath string
}

type Lemma struct {
	Name    string
	Expr    *SExpr
	Src     string
	Props   []string
	PkgPath string
	File    string
	Line    int
	Axiom   bool
	Opts    map[string]bool
}

type Directive struct { // table / codec / policy style special obligations
	Kind    string
	Args    string
	Props   []string
	PkgPath string
	File    string
	Line    int
}

// Guard: the fields of a struct type protected by one of its mutexes
type Guard struct {
	PkgPath string
	Type    string
	Mu      string
	Fields  map[string]bool
	File    string
	Line    int
}

type Specs struct {
	Guards     map[string][]*Guard // by pkgPath.Type
	Contracts  map[string]*Contract // by Key
	ByPkg      map[string][]*Contract
	SpecFuncs  map[string]*SpecFunc
	Ghosts     map[string]*GhostVar
	GhostOrder []string
	Lemmas     []*Lemma
	Directives []*Directive
	Files      []string
}

var headerRe = regexp.MustCompile(`^func\s*(\(\s*(\w+)?\s*(\*?)\s*(\w+)\s*\))?\s*(\w+)\s*$`)

var clauseKw = map[string]bool{"property": true, "opts": true, "requires": true, "ensures": true, "modifies": true,
	"loop": true, "invariant": true, "step": true, "on_break": true, "inline": true, "implements": true, "counts": true, "records": true, "at_call": true, "at_send": true, "let": true, "uses": true, "params": true, "decreases": true}
var topKw = map[string]bool{"spec": true, "ghost": true, "lemma": true, "axiom": true, "func": true, "closure": true,
	"interface": true, "extern": true, "directive": true, "fnvalue": true, "guards": true}

type rawLine struct {
	text string
	line int
}

func loadContractFile(path, pkgPath string, resolveQual func(q string) string, sp *Specs) error {
	data, err := os.ReadFile(path)
	if err != nil {
		return err
	}
	sp.Files = append(sp.Files, path)
	// gather logical lines (with continuation)
	var lines []rawLine
	for i, l := range strings.Split(string(data), "\n") {
		t := strings.TrimSpace(l)
		if !strings.HasPrefix(t, "//@") {
			continue
		}
		t = strings.TrimPrefix(t, "//@")
		// strip trailing comment " // ..."
		if k := strings.Index(t, " // "); k >= 0 {
			t = t[:k]
		}
		tt := strings.TrimSpace(t)
		if tt == "" || strings.HasPrefix(tt, "//") {
			continue
		}
		first := strings.Fields(tt)[0]
		if !clauseKw[first] && !topKw[first] && len(lines) > 0 {
			lines[len(lines)-1].text += " " + tt
			continue
		}
		lines = append(lines, rawLine{tt, i + 1})
	}
	var cur *Contract
	var curLoop *LoopSpec
	var curLemma *Lemma
	var curDir *Directive
	fail := func(l rawLine, f string, a ...any) error {
		return fmt.Errorf("%s:%d: %s", path, l.line, fmt.Sprintf(f, a...))
	}
	mkClause := func(l rawLine, rest string) (Clause, error) {
		label := ""
		if m := regexp.MustCompile(`^\[(\w[\w.-]*)\]\s*`).FindStringSubmatch(rest); m != nil {
			label = m[1]
			rest = rest[len(m[0]):]
		}
		e, err := parseSpecExpr(rest)
		if err != nil {
			return Clause{}, fail(l, "%v", err)
		}
		return Clause{Expr: e, Src: rest, File: path, Line: l.line, Label: label}, nil
	}
	for _, l := range lines {
		fs := strings.Fields(l.text)
		kw := fs[0]
		rest := strings.TrimSpace(strings.TrimPrefix(l.text, kw))
		switch kw {
		case "spec":
			// spec func name(a T, b T) T = expr
			m := regexp.MustCompile(`^(rec\s+|opaque\s+)?func\s+(\w+)\s*\(([^)]*)\)\s*([^=]*?)\s*=\s*(.*)$`).FindStringSubmatch(rest)
			if m == nil {
				return fail(l, "bad spec func")
			}
			sf := &SpecFunc{Name: m[2], PkgPath: pkgPath, File: path, Line: l.line, Src: m[5], Rec: strings.HasPrefix(m[1], "rec"), Opaque: strings.HasPrefix(m[1], "opaque")}
			if strings.TrimSpace(m[3]) != "" {
				for _, p := range strings.Split(m[3], ",") {
					pf := strings.Fields(strings.TrimSpace(p))
					if len(pf) < 2 {
						return fail(l, "bad spec func parameter %q", p)
					}
					sf.Params = append(sf.Params, binder{pf[0], &SType{Text: strings.Join(pf[1:], " ")}})
				}
			}
			sf.Ret = &SType{Text: strings.TrimSpace(m[4])}
			e, err := parseSpecExpr(m[5])
			if err != nil {
				return fail(l, "%v", err)
			}
			sf.Body = e
			if old, ok := sp.SpecFuncs[sf.Name]; ok && old.Src != sf.Src {
				return fail(l, "spec func %s redefined differently (first at %s:%d)", sf.Name, old.File, old.Line)
			}
			sp.SpecFuncs[sf.Name] = sf
			cur, curLoop, curLemma, curDir = nil, nil, nil, nil
		case "guards":
			// guards Type.mu: f1, f2
			k := strings.Index(rest, ":")
			if k < 0 || !strings.Contains(rest[:k], ".") {
				return fail(l, "guards Type.mutex: field, field")
			}
			tm := strings.SplitN(strings.TrimSpace(rest[:k]), ".", 2)
			g := &Guard{PkgPath: pkgPath, Type: tm[0], Mu: tm[1], Fields: map[string]bool{}, File: path, Line: l.line}
			for _, f := range splitNames(rest[k+1:]) {
				g.Fields[f] = true
			}
			sp.Guards[pkgPath+"."+tm[0]] = append(sp.Guards[pkgPath+"."+tm[0]], g)
			cur, curLoop, curLemma, curDir = nil, nil, nil, nil
		case "ghost":
			m := regexp.MustCompile(`^var\s+(\w+)\s+(.*)$`).FindStringSubmatch(rest)
			if m == nil {
				return fail(l, "bad ghost var")
			}
			if _, ok := sp.Ghosts[m[1]]; !ok {
				sp.Ghosts[m[1]] = &GhostVar{Name: m[1], Type: &SType{Text: strings.TrimSpace(m[2])}, PkgPath: pkgPath}
				sp.GhostOrder = append(sp.GhostOrder, m[1])
			}
			cur, curLoop, curLemma, curDir = nil, nil, nil, nil
		case "lemma", "axiom":
			k := strings.Index(rest, ":")
			if k < 0 {
				return fail(l, "bad lemma")
			}
			e, err := parseSpecExpr(rest[k+1:])
			if err != nil {
				return fail(l, "%v", err)
			}
			curLemma = &Lemma{Name: strings.TrimSpace(rest[:k]), Expr: e, Src: strings.TrimSpace(rest[k+1:]), PkgPath: pkgPath, File: path, Line: l.line, Axiom: kw == "axiom", Opts: map[string]bool{}}
			sp.Lemmas = append(sp.Lemmas, curLemma)
			cur, curLoop, curDir = nil, nil, nil
		case "directive":
			curDir = &Directive{Kind: fs[1], Args: strings.TrimSpace(strings.TrimPrefix(rest, fs[1])), PkgPath: pkgPath, File: path, Line: l.line}
			sp.Directives = append(sp.Directives, curDir)
			cur, curLoop, curLemma = nil, nil, nil
		case "func", "closure", "interface", "extern", "fnvalue":
			c := &Contract{PkgPath: pkgPath, PkgDir: filepath.Dir(path), Kind: kw, Header: l.text, Opts: map[string]bool{}, Loops: map[int]*LoopSpec{}, Inlines: map[string]bool{}, File: path, Line: l.line}
			switch kw {
			case "func":
				m := headerRe.FindStringSubmatch(l.text)
				if m == nil {
					return fail(l, "bad func header %q", l.text)
				}
				if m[4] != "" {
					c.Local = m[4] + "." + m[5]
				} else {
					c.Local = m[5]
				}
				c.Key = pkgPath + "." + c.Local
			case "closure":
				c.Local = strings.ReplaceAll(rest, "#", "$")
				c.Key = pkgPath + "." + c.Local
			case "fnvalue":
				name := rest
				if k := strings.Index(rest, "("); k >= 0 {
					name = strings.TrimSpace(rest[:k])
					c.Params = splitNames(rest[k+1 : strings.LastIndex(rest, ")")])
				}
				c.Local = name
				c.Key = pkgPath + "." + name
			case "interface":
				name := rest
				if k := strings.Index(rest, "("); k >= 0 {
					name = strings.TrimSpace(rest[:k])
					c.Params = splitNames(rest[k+1 : strings.LastIndex(rest, ")")])
				}
				c.Local = name
				if strings.Count(name, ".") == 2 { // pkg.Iface.Method
					q := name[:strings.Index(name, ".")]
					c.Key = resolveQual(q) + name[strings.Index(name, "."):]
				} else {
					c.Key = pkgPath + "." + name
				}
			case "extern":
				name := rest
				if k := strings.Index(rest, "("); k >= 0 {
					name = strings.TrimSpace(rest[:k])
					c.Params = splitNames(rest[k+1 : strings.LastIndex(rest, ")")])
				}
				k := strings.Index(name, ".")
				if k < 0 {
					return fail(l, "extern needs a package qualifier")
				}
				c.Local = name
				c.Key = pkgPath + "::" + resolveQual(name[:k]) + name[k:]
			}
			if old, ok := sp.Contracts[c.Key]; ok {
				if old.Kind == "extern" {
					// duplicates of assumed contracts are allowed; the first one wins for lookups
					// but clauses are still parsed (into a throwaway contract)
				} else {
					return fail(l, "duplicate contract for %s (first at %s:%d)", c.Key, old.File, old.Line)
				}
			} else {
				sp.Contracts[c.Key] = c
				sp.ByPkg[pkgPath] = append(sp.ByPkg[pkgPath], c)
			}
			cur, curLoop, curLemma, curDir = c, nil, nil, nil
		case "property":
			switch {
			case cur != nil:
				cur.Props = append(cur.Props, fs[1:]...)
			case curLemma != nil:
				curLemma.Props = append(curLemma.Props, fs[1:]...)
			case curDir != nil:
				curDir.Props = append(curDir.Props, fs[1:]...)
			default:
				return fail(l, "property outside a contract")
			}
		case "opts":
			if cur == nil {
				if curLemma != nil {
					for _, o := range fs[1:] {
						curLemma.Opts[o] = true
					}
					continue
				}
				return fail(l, "opts outside a contract")
			}
			for _, o := range fs[1:] {
				cur.Opts[o] = true
			}
		case "params":
			if cur == nil {
				return fail(l, "params outside a contract")
			}
			cur.Params = splitNames(rest)
		case "implements":
			if cur == nil {
				return fail(l, "implements outside a contract")
			}
			for _, n := range splitNames(rest) {
				k := strings.Index(n, ".")
				cur.Implements = append(cur.Implements, resolveQual(n[:k])+n[k:])
			}
		case "counts":
			if cur == nil {
				return fail(l, "counts outside a contract")
			}
			k := strings.Index(rest, " when ")
			if k < 0 {
				return fail(l, "counts <ghost> when <condition>")
			}
			e, err := parseSpecExpr(rest[k+6:])
			if err != nil {
				return fail(l, "%v", err)
			}
			cur.Counts = append(cur.Counts, CountDef{Ghost: strings.TrimSpace(rest[:k]), Cond: e, Src: rest[k+6:]})
		case "at_send":
			// at_send <channel expression> assert <condition>: checked at every send on that channel in this function
			if cur == nil {
				return fail(l, "at_send outside a contract")
			}
			{
				k := strings.Index(rest, " assert ")
				if k < 0 {
					return fail(l, "at_send <channel> assert <condition>")
				}
				cl, err := mkClause(l, rest[k+8:])
				if err != nil {
					return err
				}
				if cur.CallAsserts == nil {
					cur.CallAsserts = map[string][]Clause{}
				}
				key := "send:" + strings.Join(strings.Fields(rest[:k]), "")
				cur.CallAsserts[key] = append(cur.CallAsserts[key], cl)
			}
		case "at_call":
			if cur == nil {
				return fail(l, "at_call outside a contract")
			}
			k := strings.Index(rest, " assert ")
			if k < 0 {
				return fail(l, "at_call <callee> assert <condition>")
			}
			cl, err := mkClause(l, rest[k+8:])
			if err != nil {
				return err
			}
			if cur.CallAsserts == nil {
				cur.CallAsserts = map[string][]Clause{}
			}
			callee := strings.TrimSpace(rest[:k])
			cur.CallAsserts[callee] = append(cur.CallAsserts[callee], cl)
		case "records":
			if cur == nil {
				return fail(l, "records outside a contract")
			}
			k := strings.Index(rest, "=")
			if k < 0 {
				return fail(l, "records <ghost> = <expression over results>")
			}
			e, err := parseSpecExpr(rest[k+1:])
			if err != nil {
				return fail(l, "%v", err)
			}
			cur.Counts = append(cur.Counts, CountDef{Ghost: strings.TrimSpace(rest[:k]), Assign: e, Src: rest[k+1:]})
		case "inline":
			if cur == nil {
				return fail(l, "inline outside a contract")
			}
			for _, n := range splitNames(rest) {
				cur.Inlines[n] = true
			}
		case "uses":
			if cur == nil {
				return fail(l, "uses outside a contract")
			}
			cur.UsesLemmas = append(cur.UsesLemmas, strings.Fields(rest)...)
		case "let":
			if cur == nil {
				return fail(l, "let outside a contract")
			}
			k := strings.Index(rest, "=")
			e, err := parseSpecExpr(rest[k+1:])
			if err != nil {
				return fail(l, "%v", err)
			}
			cur.Lets = append(cur.Lets, LetDef{Name: strings.TrimSpace(rest[:k]), Expr: e, Src: rest[k+1:], Line: l.line})
		case "requires", "ensures":
			if cur == nil {
				return fail(l, "%s outside a contract", kw)
			}
			cl, err := mkClause(l, rest)
			if err != nil {
				return err
			}
			if kw == "requires" {
				cur.Requires = append(cur.Requires, cl)
			} else {
				cur.Ensures = append(cur.Ensures, cl)
			}
		case "modifies":
			if cur == nil {
				return fail(l, "modifies outside a contract")
			}
			cur.HasModifies = true
			for _, n := range splitNames(rest) {
				if n != "nothing" {
					cur.Modifies = append(cur.Modifies, n)
				}
			}
		case "loop":
			if cur == nil {
				return fail(l, "loop outside a contract")
			}
			n, err := strconv.Atoi(fs[1])
			if err != nil {
				return fail(l, "bad loop ordinal")
			}
			curLoop = &LoopSpec{N: n}
			if k := strings.Index(rest, "("); k >= 0 {
				curLoop.Fingerprint = strings.TrimSpace(rest[k+1 : strings.LastIndex(rest, ")")])
			}
			cur.Loops[n] = curLoop
		case "invariant":
			if curLoop == nil {
				return fail(l, "invariant outside a loop")
			}
			cl, err := mkClause(l, rest)
			if err != nil {
				return err
			}
			curLoop.Invariants = append(curLoop.Invariants, cl)
		case "step":
			if curLoop == nil {
				return fail(l, "step outside a loop")
			}
			cl, err := mkClause(l, rest)
			if err != nil {
				return err
			}
			curLoop.Steps = append(curLoop.Steps, cl)
		case "on_break":
			if curLoop == nil {
				return fail(l, "on_break outside a loop")
			}
			cl, err := mkClause(l, rest)
			if err != nil {
				return err
			}
			curLoop.OnBreak = append(curLoop.OnBreak, cl)
		case "decreases":
			if curLoop == nil {
				return fail(l, "decreases outside a loop")
			}
			cl, err := mkClause(l, rest)
			if err != nil {
				return err
			}
			curLoop.Decreases = append(curLoop.Decreases, cl)
		default:
			return fail(l, "unknown keyword %q", kw)
		}
	}
	return nil
}

func splitNames(s string) []string {
	var out []string
	for _, p := range strings.Split(s, ",") {
		p = strings.TrimSpace(p)
		if p != "" {
			out = append(out, p)
		}
	}
	return out
}

func newSpecs() *Specs {
	return &Specs{Guards: map[string][]*Guard{}, Contracts: map[string]*Contract{}, ByPkg: map[string][]*Contract{}, SpecFuncs: map[string]*SpecFunc{}, Ghosts: map[string]*GhostVar{}}
}

func (c *Contract) hasProp(id string) bool {
	for _, p := range c.Props {
		if p == id {
			return true
		}
	}
	return false
}
