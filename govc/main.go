package main

// govc: contract-based deductive verifier for the Go code in /repo.
//   govc check <PROPERTY> [--tier quick|thorough] [--repo /repo] [--verif /verif]
//   govc list                      (functions under contract per property)
//   govc dump <pkg.Func> [--repo]  (print obligations of one function)

import (
	"encoding/json"
	"flag"
	"fmt"
	"os"
	"path/filepath"
	"regexp"
	"sort"
	"strconv"
	"strings"
	"time"
)

type knownFinding struct {
	Kind     string // finding | fixed
	Property string
	Oblig    string
	Text     string
}

func loadKnown(path string) []knownFinding {
	data, err := os.ReadFile(path)
	if err != nil {
		return nil
	}
	var out []knownFinding
	re := regexp.MustCompile(`^(finding|fixed):\s+property=(\S+)\s+(?:obligation=(\S+)\s+)?(.*)$`)
	for _, l := range strings.Split(string(data), "\n") {
		l = strings.TrimSpace(l)
		if m := re.FindStringSubmatch(l); m != nil {
			out = append(out, knownFinding{m[1], m[2], m[3], m[4]})
		}
	}
	return out
}

type oblRecord struct {
	Name    string  `json:"name"`
	Class   string  `json:"class"`
	Status  string  `json:"status"`
	Solver  string  `json:"solver"`
	Seconds float64 `json:"seconds"`
	Clause  string  `json:"clause,omitempty"`
	At      string  `json:"at,omitempty"`
	SMTSize int     `json:"smt_bytes,omitempty"`
}

func main() {
	if len(os.Args) < 2 {
		fmt.Fprintln(os.Stderr, "usage: govc check|list|dump ...")
		os.Exit(2)
	}
	cmd := os.Args[1]
	fs := flag.NewFlagSet(cmd, flag.ExitOnError)
	tier := fs.String("tier", envOr("VERIF_TIER", "quick"), "quick or thorough")
	repo := fs.String("repo", "/repo", "repository root")
	verif := fs.String("verif", "/verif", "verification root")
	only := fs.String("only", "", "restrict to functions whose name contains this")
	showSMT := fs.Bool("smt", false, "dump: print SMT scripts")
	var positional []string
	args := os.Args[2:]
	for len(args) > 0 {
		if strings.HasPrefix(args[0], "-") {
			fs.Parse(args)
			args = fs.Args()
			continue
		}
		positional = append(positional, args[0])
		args = args[1:]
	}
	t0 := time.Now()
	prog, err := loadProgram(*repo)
	if err != nil {
		fmt.Fprintln(os.Stderr, "govc: load failed:", err)
		// a tree that does not load cannot be judged; report and exit 2 (not a violation)
		os.Exit(2)
	}
	loadSecs := time.Since(t0).Seconds()
	switch cmd {
	case "list":
		props := map[string][]string{}
		for _, c := range prog.specs.Contracts {
			for _, pr := range c.Props {
				props[pr] = append(props[pr], c.Kind+" "+c.Key)
			}
		}
		var ids []string
		for k := range props {
			ids = append(ids, k)
		}
		sort.Strings(ids)
		for _, id := range ids {
			sort.Strings(props[id])
			fmt.Printf("%s (%d)\n", id, len(props[id]))
			for _, f := range props[id] {
				fmt.Println("   ", f)
			}
		}
	case "dump":
		for _, c := range prog.specs.Contracts {
			if c.Kind != "func" && c.Kind != "closure" {
				continue
			}
			if len(positional) > 0 && !strings.Contains(c.Key, positional[0]) {
				continue
			}
			t, err := prog.findTarget(c)
			if err != nil {
				fmt.Println("ERROR", err)
				continue
			}
			vc, rep := prog.verifyFunc(t)
			fmt.Printf("== %s (%s:%d) undecided=%q\n", rep.Name, rep.File, rep.Line, rep.Undecided)
			for _, d := range rep.Dropped {
				fmt.Println("   note:", d)
			}
			for _, o := range vc.obls {
				fmt.Printf("  %s  [%s] %s\n", o.Name, o.Class, o.Desc)
				if *showSMT {
					fmt.Println(vc.script(o, true))
				}
			}
		}
	case "check":
		if len(positional) < 1 {
			fmt.Fprintln(os.Stderr, "usage: govc check <PROPERTY>")
			os.Exit(2)
		}
		os.Exit(runCheck(prog, positional[0], *tier, *verif, *only, loadSecs, t0))
	default:
		fmt.Fprintln(os.Stderr, "unknown command", cmd)
		os.Exit(2)
	}
}

func envOr(k, d string) string {
	if v := os.Getenv(k); v != "" {
		return v
	}
	return d
}

func runCheck(prog *Program, prop, tier, verif, only string, loadSecs float64, t0 time.Time) int {
	prog.verifDir = verif
	seed, _ := strconv.Atoi(os.Getenv("VERIF_SEED"))
	timeout := 10 * time.Second
	needAll := false
	if tier == "thorough" {
		timeout = 60 * time.Second
		needAll = true
	}
	work := filepath.Join(envOr("GOVC_WORK_DIR", filepath.Join(verif, "work")), prop)
	os.RemoveAll(work)
	os.MkdirAll(filepath.Join(work, "smt"), 0o755)
	os.MkdirAll(filepath.Join(work, "replay"), 0o755)
	known := loadKnown(filepath.Join(verif, "known_findings.txt"))

	var targets []*Contract
	var assumed []*Contract
	for _, c := range prog.specs.Contracts {
		if !c.hasProp(prop) {
			continue
		}
		if (c.Kind == "func" || c.Kind == "closure") && (!c.Opts["trusted"] || c.Opts["own"]) {
			if only == "" || strings.Contains(c.Key, only) {
				targets = append(targets, c)
			}
		} else {
			assumed = append(assumed, c)
		}
	}
	sort.Slice(targets, func(i, j int) bool { return targets[i].Key < targets[j].Key })
	// contracts of helper functions (trusted, or carrying no property tag) in the packages of this property's targets:
	// one that is attached to a function that does not exist is never used - say so instead of ignoring it silently
	tpk := map[string]bool{}
	for _, c := range targets {
		tpk[c.PkgPath] = true
	}
	var stale []string
	for _, c := range prog.specs.Contracts {
		if (c.Kind != "func" && c.Kind != "closure") || !tpk[c.PkgPath] {
			continue
		}
		if c.hasProp(prop) && (!c.Opts["trusted"] || c.Opts["own"]) {
			continue // a target: reported below
		}
		if _, err := prog.findTarget(c); err != nil {
			stale = append(stale, fmt.Sprintf("UNDECIDED property=%s func=%s reason=contract attached to no function: %v", prop, c.Local, err))
		}
	}
	sort.Strings(stale)
	for _, l := range stale {
		fmt.Println(l)
	}

	type item = struct {
		vc *VC
		o  *Obl
	}
	var items []item
	var reports []*FuncReport
	undecided := 0
	for _, c := range targets {
		t, err := prog.findTarget(c)
		if err != nil {
			fmt.Printf("UNDECIDED property=%s func=%s reason=%v\n", prop, c.Local, err)
			reports = append(reports, &FuncReport{Name: c.Local, Key: c.Key, Undecided: err.Error()})
			undecided++
			continue
		}
		vc, rep := prog.verifyFunc(t)
		reports = append(reports, rep)
		if rep.Undecided != "" {
			fmt.Printf("UNDECIDED property=%s func=%s reason=%s\n", prop, rep.Name, rep.Undecided)
			undecided++
			continue
		}
		for _, o := range vc.obls {
			items = append(items, item{vc, o})
		}
	}
	// lemmas and special directives of this property
	extraItems, extraReports := prog.specialObligations(prop)
	for _, it := range extraItems {
		items = append(items, item{it.vc, it.o})
	}
	reports = append(reports, extraReports...)

	genSecs := time.Since(t0).Seconds() - loadSecs
	results := solveAll(items, filepath.Join(work, "smt"), timeout, needAll, 12)

	// retry failures once with a longer budget before judging (solver instability is not a violation)
	for i, r := range results {
		if r.Obl.Vacuity || r.Status == "unsat" || r.Status == "sat" {
			continue
		}
		isKnown := false
		for _, k := range known {
			if k.Kind == "finding" && k.Property == prop && k.Oblig == r.Obl.Name {
				isKnown = true
			}
		}
		if isKnown {
			continue // a listed finding is expected to fail: no second attempt
		}
		results[i] = solveOne(r.VC, r.Obl, filepath.Join(work, "smt"), 3*timeout, false)
	}

	// calls of contract-less module functions known on the verified baseline: a function that calls one that is
	// not listed (say, a helper extracted by a refactoring) is havocked at that call, so a failed obligation
	// there is "needs a contract", not a violation
	baseline := loadCallBaseline(filepath.Join(verif, "nocontract_baseline.txt"))
	newCallee := map[string]string{} // function name -> new contract-less callee
	for _, rp := range reports {
		for _, cal := range rp.NoContract {
			if !baseline[rp.Key+" => "+cal] {
				newCallee[rp.Name] = cal
			}
		}
	}
	if os.Getenv("GOVC_WRITE_BASELINE") != "" {
		f, _ := os.OpenFile(os.Getenv("GOVC_WRITE_BASELINE"), os.O_APPEND|os.O_CREATE|os.O_WRONLY, 0o644)
		for _, rp := range reports {
			for _, cal := range rp.NoContract {
				fmt.Fprintf(f, "%s => %s\n", rp.Key, cal)
			}
		}
		f.Close()
	}
	undecidedNew := map[string]bool{}
	var records []oblRecord
	bySolver := map[string]int{}
	solverSecs := 0.0
	nObl, nDis, nViol, nKnown, nVacuous := 0, 0, 0, 0, 0
	nUnreach := 0
	var unreach []string
	var samples []any
	var violLines []string
	for _, r := range results {
		o := r.Obl
		fi, _ := os.Stat(r.File)
		sz := 0
		if fi != nil {
			sz = int(fi.Size())
		}
		rec := oblRecord{Name: o.Name, Class: o.Class, Status: r.Status, Solver: r.Solver, Seconds: round3(r.Seconds), Clause: o.Desc, At: fmt.Sprintf("%s:%d", strings.TrimPrefix(o.Pos.Filename, prog.repo+"/"), o.Pos.Line), SMTSize: sz}
		records = append(records, rec)
		solverSecs += r.Seconds
		if o.Vacuity && o.Class == "vacuity-ret" {
			if r.Status == "unsat" {
				nUnreach++
				unreach = append(unreach, fmt.Sprintf("%s (%s:%d)", o.Name, strings.TrimPrefix(o.Pos.Filename, prog.repo+"/"), o.Pos.Line))
			}
			continue
		}
		if o.Vacuity {
			if r.Status == "unsat" {
				nVacuous++
				fmt.Printf("VACUOUS property=%s obligation=%s (preconditions or assumed contracts are contradictory; function treated as undecided)\n", prop, o.Name)
			}
			continue
		}
		// known finding?
		var kf *knownFinding
		for i := range known {
			if known[i].Kind == "finding" && known[i].Property == prop && known[i].Oblig == o.Name {
				kf = &known[i]
			}
		}
		if kf != nil {
			if r.Status == "unsat" {
				// the defect was repaired in the tree under test: counted as discharged, no line
				nObl++
				nDis++
				bySolver[r.Solver]++
			} else {
				nKnown++
				fmt.Printf("KNOWN-FINDING: property=%s %s [obligation %s: %s]\n", prop, kf.Text, o.Name, r.Status)
			}
			continue
		}
		nObl++
		if r.Status == "unsat" {
			nDis++
			bySolver[r.Solver]++
			if len(samples) < 4 {
				samples = append(samples, map[string]any{"obligation": o.Name, "clause": o.Desc, "result": "unsat", "solver": r.Solver, "seconds": round3(r.Seconds), "smt_bytes": sz})
			}
			continue
		}
		if cal, ok := newCallee[o.Func]; ok && o.Class != "lock" { // (lock discipline is syntactic: no havoc can fake it)
			nObl--
			if !undecidedNew[o.Func] {
				undecidedNew[o.Func] = true
				undecided++
				fmt.Printf("UNDECIDED property=%s func=%s reason=calls %s, which has no contract and is not in the verified baseline (all state is havocked there); obligation %s and others not decided\n", prop, o.Func, cal, o.Name)
			}
			continue
		}
		nViol++
		replayPath, reproduced := prog.writeReplay(work, prop, r)
		fmt.Printf("FAILED obligation=%s result=%s solver=%s replayed=%v clause=%q at=%s\n", o.Name, r.Status, r.Solver, reproduced, o.Desc, rec.At)
		line := fmt.Sprintf("VIOLATION property=%s replay=%s", prop, replayPath)
		if !reproduced {
			line += " no-failing-input-found"
		}
		violLines = append(violLines, line)
	}
	for _, l := range violLines {
		fmt.Println(l)
	}
	wall := time.Since(t0).Seconds()

	// evidence
	var assumptions []string
	assumptions = append(assumptions, prog.overlayNote)
	assumptions = append(assumptions,
		"integers are mathematical (no overflow) except in functions marked bv (64-bit vectors) or checked_arith",
		"distinct slice and map values do not alias; element writes are value updates",
		"nil dereference / out-of-range index ends the path (partial correctness) except in functions marked safety",
		"goroutine bodies are not verified (of a go statement only the spawned calls are looked at: the caller's at_call clauses and the callees' call-history ghosts); logging, tracing and metrics calls are dropped; termination is not proved",
		"an interior pointer (&p.f) is a copy kept in step with its location around every call; two such pointers to the same location are not known to alias",
		"strings, CIDs, peer IDs, multiaddresses and errors are uninterpreted values with equality")
	for _, c := range targets {
		if c.Opts["assume_post"] {
			var cl []string
			for _, e := range c.Ensures {
				cl = append(cl, e.Src)
			}
			assumptions = append(assumptions, fmt.Sprintf("ASSUMED postconditions (body checked for call-site assertions and callee preconditions only) of %s: ensures %s", c.Key, strings.Join(cl, " ; ")))
		}
	}
	for _, c := range assumed {
		var cl []string
		for _, e := range c.Ensures {
			cl = append(cl, e.Src)
		}
		assumptions = append(assumptions, fmt.Sprintf("ASSUMED %s contract %s: ensures %s", c.Kind, c.Key, strings.Join(cl, " ; ")))
	}
	usedExt := map[string]bool{}
	for _, rp := range reports {
		for _, u := range rp.Uses {
			if strings.HasSuffix(u, "[extern]") || strings.HasSuffix(u, "[interface]") || strings.HasSuffix(u, "[trusted]") || strings.HasSuffix(u, "[fnvalue]") {
				usedExt[u] = true
			}
		}
	}
	var ue []string
	for u := range usedExt {
		ue = append(ue, u)
	}
	sort.Strings(ue)
	for _, u := range ue {
		c := prog.specs.Contracts[strings.Fields(u)[0]]
		if c == nil {
			continue
		}
		var cl []string
		for _, e := range c.Ensures {
			cl = append(cl, e.Src)
		}
		assumptions = append(assumptions, fmt.Sprintf("ASSUMED (not verified) %s: ensures %s", u, strings.Join(cl, " ; ")))
	}
	for _, l := range prog.specs.Lemmas {
		if l.Axiom {
			assumptions = append(assumptions, "AXIOM "+l.Name+": "+l.Src)
		}
	}
	ev := map[string]any{
		"property_id": prop,
		"tier":        tier,
		"seed":        seed,
		"level":       "proof",
		"coverage": map[string]any{
			"obligations":   nObl,
			"discharged":    nDis,
			"checker_cmd":   fmt.Sprintf("/verif/bin/govc check %s --tier %s  (SMT back ends raced per obligation: z3-new 5.1.0, z3 4.8.12, cvc5 1.0.3; timeout %s)", prop, tier, timeout),
			"trusted_base":  []string{"govc VC generator (/verif/govc): typed-AST symbolic execution, encodings of DESIGN.md §2.4", "SMT solvers z3 5.1.0 / z3 4.8.12 / cvc5 1.0.3", "go/types and go/packages (x/tools v0.29.0)", "assumed extern/interface contracts listed under assumptions"},
			"functions_under_contract": reports,
			"discharged_by_backend":    bySolver,
			"solver_seconds":           round3(solverSecs),
			"load_seconds":             round3(loadSecs),
			"vcgen_seconds":            round3(genSecs),
			"undecided_functions":      undecided,
			"vacuous_functions":        nVacuous,
			"unreachable_returns":      unreach,
			"known_findings_still_failing": nKnown,
			"violations":               nViol,
			"obligation_results":       records,
			"samples":                  samples,
			"rule":                     "one obligation per ensures conjunct, loop-invariant conjunct (init/preservation), call-site precondition and safety check of every function whose contract names this property; discharged = unsat from at least one back end (all three in the thorough tier are recorded)",
		},
		"assumptions": assumptions,
		"wall_s":      round3(wall),
		"violations":  nViol,
	}
	evDir := envOr("GOVC_EVIDENCE_DIR", filepath.Join(verif, "evidence")) // (test runs on patched copies write elsewhere)
	os.MkdirAll(evDir, 0o755)
	b, _ := json.MarshalIndent(ev, "", " ")
	os.WriteFile(filepath.Join(evDir, prop+".json"), b, 0o644)

	fmt.Printf("govc: %s tier=%s functions=%d obligations=%d discharged=%d violations=%d known=%d undecided=%d vacuous=%d unreachable_returns=%d load=%.1fs vcgen=%.1fs solver=%.1fs wall=%.1fs\n",
		prop, tier, len(targets), nObl, nDis, nViol, nKnown, undecided, nVacuous, nUnreach, loadSecs, genSecs, solverSecs, wall)
	if nUnreach > 0 && os.Getenv("GOVC_VERBOSE") != "" {
		for _, u := range unreach {
			fmt.Println("UNREACHABLE-RETURN", u)
		}
	}
	if nObl == 0 {
		fmt.Printf("govc: no obligations generated for %s — nothing is claimed\n", prop)
	}
	if nViol > 0 {
		return 1
	}
	return 0
}

func loadCallBaseline(path string) map[string]bool {
	out := map[string]bool{}
	data, err := os.ReadFile(path)
	if err != nil {
		return out
	}
	for _, l := range strings.Split(string(data), "\n") {
		if l = strings.TrimSpace(l); l != "" && !strings.HasPrefix(l, "#") {
			out[l] = true
		}
	}
	return out
}

func round3(f float64) float64 { return float64(int(f*1000+0.5)) / 1000 }

// writeReplay writes the replay artefact for a failed obligation and tries to reproduce it.
func (p *Program) writeReplay(work, prop string, r *solveResult) (string, bool) {
	path := filepath.Join(work, "replay", sanitize(r.Obl.Name)+".txt")
	var b strings.Builder
	fmt.Fprintf(&b, "property: %s\nobligation: %s\nclass: %s\nclause: %s\nat: %s:%d\nresult: %s (%s)\nsmt: %s\n\n", prop, r.Obl.Name, r.Obl.Class, r.Obl.Desc, r.Obl.Pos.Filename, r.Obl.Pos.Line, r.Status, r.Solver, r.File)
	for s, o := range r.Outputs {
		fmt.Fprintf(&b, "--- %s ---\n%s\n", s, o)
	}
	if r.Model != "" {
		fmt.Fprintf(&b, "--- model (%s) ---\n%s\n", r.Solver, trunc(r.Model, 20000))
	}
	os.WriteFile(path, []byte(b.String()), 0o644)
	reproduced := p.tryReplay(work, prop, r, path)
	return path, reproduced
}
