package main

// smt.go: the verification-condition context. A VC is an append-only list of
// SMT-LIB declarations and always-true facts (definitions of fresh constants,
// well-formedness of values, axioms of the encodings) plus named obligations
// "facts[0:n] /\ pc ==> goal".

import (
	"strconv"
	"fmt"
	"go/token"
	"sort"
	"strings"
)

// Val is an SMT term with its sort and (when it denotes a Go value) its Go type.
type Val struct {
	T    string // term text
	Sort string // SMT sort text
	GoT  any    // types.Type or nil (spec-only values)
	Set  func(x Val) string // non-nil: a spec-level set (predicate); T unused
	SetElem string // element sort of the set
}

type Obl struct {
	Name     string
	Class    string // post, pre, inv-init, inv-pres, bounds, nil, own, lemma, table, codec, assert
	PC       string
	Goal     string
	NDecls   int
	NFacts   int
	Pos      token.Position
	Desc     string // human readable: the source text of the clause
	Func     string
	Vacuity  bool // a reachability probe: expected NOT to be unsat
	Extra    []string // extra hypotheses for this obligation only
	ModelVars []string // constants whose model values are interesting
}

type VC struct {
	bv       bool // bit-vector mode for Go integers
	decls    []string
	declared map[string]bool
	facts    []string
	nfresh   int
	obls     []*Obl
	strLits  map[string]string
	strOrder []string
	notes    map[string]bool // dropped constructs / assumptions noted while translating
	termFacts map[string]bool
	inputs   []string // names of input constants (for models)
	sreg     *sortReg
	funRet   map[string]string
	tagIDs   map[string]int
}

func newVC(bv bool) *VC {
	vc := &VC{bv: bv, declared: map[string]bool{}, strLits: map[string]string{}, notes: map[string]bool{}, termFacts: map[string]bool{}}
	vc.declRaw("sort:Str", "(declare-sort Str 0)")
	vc.declRaw("const:str_empty", "(declare-const str_empty Str)")
	vc.strLits[""] = "str_empty"
	vc.strOrder = append(vc.strOrder, "")
	return vc
}

func (vc *VC) note(s string) { vc.notes[s] = true }

func (vc *VC) declRaw(key, text string) {
	if vc.declared[key] {
		return
	}
	vc.declared[key] = true
	vc.decls = append(vc.decls, text)
}

func (vc *VC) declSort(name string) {
	vc.declRaw("sort:"+name, fmt.Sprintf("(declare-sort %s 0)", name))
}

func (vc *VC) declConst(name, sort string) {
	vc.declRaw("const:"+name, fmt.Sprintf("(declare-const %s %s)", name, sort))
}

func (vc *VC) declFun(name string, args []string, ret string) {
	if vc.funRet == nil {
		vc.funRet = map[string]string{}
	}
	vc.funRet[name] = ret
	vc.declRaw("fun:"+name, fmt.Sprintf("(declare-fun %s (%s) %s)", name, strings.Join(args, " "), ret))
}

func (vc *VC) fact(f string) {
	if f == "true" || f == "" {
		return
	}
	vc.facts = append(vc.facts, f)
}

// termFact adds f once (keyed by f itself).
func (vc *VC) termFact(f string) {
	if vc.termFacts[f] {
		return
	}
	if strings.Contains(f, "!q") && !strings.HasPrefix(f, "(forall") {
		return // mentions a quantifier-bound variable: not a closed fact
	}
	vc.termFacts[f] = true
	vc.fact(f)
}

func sanitize(s string) string {
	var b strings.Builder
	for _, r := range s {
		switch {
		case r >= 'a' && r <= 'z', r >= 'A' && r <= 'Z', r >= '0' && r <= '9', r == '_':
			b.WriteRune(r)
		case r == '.' || r == '/':
			b.WriteRune('_')
		case r == '*':
			b.WriteString("P")
		case r == '[' || r == ']':
			b.WriteString("L")
		default:
			b.WriteString("_")
		}
	}
	return b.String()
}

func (vc *VC) fresh(hint, sort string) string {
	vc.nfresh++
	name := fmt.Sprintf("%s!%d", sanitize(hint), vc.nfresh)
	vc.declConst(name, sort)
	return name
}

func (vc *VC) strLit(s string) string {
	if n, ok := vc.strLits[s]; ok {
		return n
	}
	n := fmt.Sprintf("str!%d_%s", len(vc.strLits), sanitize(trunc(s, 24)))
	vc.declConst(n, "Str")
	// pairwise distinct from all earlier literals
	for _, o := range vc.strOrder {
		vc.fact(fmt.Sprintf("(not (= %s %s))", n, vc.strLits[o]))
	}
	vc.strLits[s] = n
	vc.strOrder = append(vc.strOrder, s)
	return n
}

func trunc(s string, n int) string {
	if len(s) > n {
		return s[:n]
	}
	return s
}

// ---- integer operations (Int or BitVec 64) ----

func (vc *VC) intSort() string {
	if vc.bv {
		return "(_ BitVec 64)"
	}
	return "Int"
}

func (vc *VC) intLit(n int64) string {
	if vc.bv {
		return fmt.Sprintf("(_ bv%d 64)", uint64(n))
	}
	if n < 0 {
		return fmt.Sprintf("(- %d)", -n)
	}
	return fmt.Sprintf("%d", n)
}

func (vc *VC) bigLit(s string) string { // decimal string, maybe negative
	if vc.bv {
		if strings.HasPrefix(s, "-") {
			return fmt.Sprintf("(bvneg (_ bv%s 64))", s[1:])
		}
		return fmt.Sprintf("(_ bv%s 64)", s)
	}
	if strings.HasPrefix(s, "-") {
		return fmt.Sprintf("(- %s)", s[1:])
	}
	return s
}

func (vc *VC) arith(op string, a, b string, signed bool) string {
	if !vc.bv {
		switch op {
		case "+":
			return fmt.Sprintf("(+ %s %s)", a, b)
		case "-":
			return fmt.Sprintf("(- %s %s)", a, b)
		case "*":
			return fmt.Sprintf("(* %s %s)", a, b)
		case "/":
			return fmt.Sprintf("(godiv %s %s)", a, b)
		case "%":
			return fmt.Sprintf("(gomod %s %s)", a, b)
		case "&", "|", "^", "<<", ">>", "&^":
			// both operands literal: fold (the values are those of Go's int64 arithmetic)
			if ai, e1 := strconv.ParseInt(a, 10, 64); e1 == nil && ai >= 0 {
				if bi, e2 := strconv.ParseInt(b, 10, 64); e2 == nil && bi >= 0 {
					var r int64
					okf := true
					switch op {
					case "&":
						r = ai & bi
					case "|":
						r = ai | bi
					case "^":
						r = ai ^ bi
					case "&^":
						r = ai &^ bi
					case "<<":
						if bi < 62 && ai < (1<<(62-uint(bi))) {
							r = ai << uint(bi)
						} else {
							okf = false
						}
					case ">>":
						if bi < 64 {
							r = ai >> uint(bi)
						}
					}
					if okf {
						return strconv.FormatInt(r, 10)
					}
				}
			}
			return fmt.Sprintf("(%s %s %s)", vc.bitUF(op), a, b)
		}
	} else {
		m := map[string]string{"+": "bvadd", "-": "bvsub", "*": "bvmul", "&": "bvand", "|": "bvor", "^": "bvxor", "<<": "bvshl"}
		if f, ok := m[op]; ok {
			return fmt.Sprintf("(%s %s %s)", f, a, b)
		}
		switch op {
		case "/":
			if signed {
				return fmt.Sprintf("(bvsdiv %s %s)", a, b)
			}
			return fmt.Sprintf("(bvudiv %s %s)", a, b)
		case "%":
			if signed {
				return fmt.Sprintf("(bvsrem %s %s)", a, b)
			}
			return fmt.Sprintf("(bvurem %s %s)", a, b)
		case ">>":
			if signed {
				return fmt.Sprintf("(bvashr %s %s)", a, b)
			}
			return fmt.Sprintf("(bvlshr %s %s)", a, b)
		case "&^":
			return fmt.Sprintf("(bvand %s (bvnot %s))", a, b)
		}
	}
	panic(unsupported("arith op " + op))
}

// bitUF: in Int mode bit operations are uninterpreted (sound: nothing is known about them).
func (vc *VC) bitUF(op string) string {
	name := map[string]string{"&": "bit_and", "|": "bit_or", "^": "bit_xor", "<<": "bit_shl", ">>": "bit_shr", "&^": "bit_andnot"}[op]
	if op == "<<" && !vc.declared["fun:"+name] {
		vc.declFun(name, []string{"Int", "Int"}, "Int")
		// ground facts: 1 << k for the shift counts of a 64-bit integer
		for k := 0; k < 63; k++ {
			vc.termFact(fmt.Sprintf("(= (%s 1 %d) %d)", name, k, int64(1)<<uint(k)))
		}
	}
	vc.declFun(name, []string{"Int", "Int"}, "Int")
	vc.note("bit operation " + op + " left uninterpreted in Int mode")
	return name
}

func (vc *VC) cmp(op string, a, b string, signed bool) string {
	if op == "==" {
		return fmt.Sprintf("(= %s %s)", a, b)
	}
	if op == "!=" {
		return fmt.Sprintf("(not (= %s %s))", a, b)
	}
	if !vc.bv {
		return fmt.Sprintf("(%s %s %s)", op, a, b)
	}
	var f string
	switch op {
	case "<":
		f = "bvslt"
	case "<=":
		f = "bvsle"
	case ">":
		f = "bvsgt"
	case ">=":
		f = "bvsge"
	}
	if !signed {
		f = strings.Replace(f, "bvs", "bvu", 1)
	}
	return fmt.Sprintf("(%s %s %s)", f, a, b)
}

func (vc *VC) prelude() []string {
	p := []string{}
	if !vc.bv {
		// Go's truncated division on mathematical integers
		p = append(p,
			"(define-fun godiv ((a Int) (b Int)) Int (ite (>= a 0) (ite (> b 0) (div a b) (- (div a (- b)))) (ite (> b 0) (- (div (- a) b)) (div (- a) (- b)))))",
			"(define-fun gomod ((a Int) (b Int)) Int (- a (* b (godiv a b))))")
	}
	return p
}

// ---- boolean helpers ----

func and(xs ...string) string {
	ys := []string{}
	for _, x := range xs {
		if x == "true" || x == "" {
			continue
		}
		if x == "false" {
			return "false"
		}
		ys = append(ys, x)
	}
	if len(ys) == 0 {
		return "true"
	}
	if len(ys) == 1 {
		return ys[0]
	}
	return "(and " + strings.Join(ys, " ") + ")"
}

func or(xs ...string) string {
	ys := []string{}
	for _, x := range xs {
		if x == "false" || x == "" {
			continue
		}
		if x == "true" {
			return "true"
		}
		ys = append(ys, x)
	}
	if len(ys) == 0 {
		return "false"
	}
	if len(ys) == 1 {
		return ys[0]
	}
	return "(or " + strings.Join(ys, " ") + ")"
}

func not(x string) string {
	if x == "true" {
		return "false"
	}
	if x == "false" {
		return "true"
	}
	if strings.HasPrefix(x, "(not ") {
		return x[5 : len(x)-1]
	}
	return "(not " + x + ")"
}

func implies(a, b string) string {
	if a == "true" {
		return b
	}
	if a == "false" || b == "true" {
		return "true"
	}
	return fmt.Sprintf("(=> %s %s)", a, b)
}

func ite(c, a, b string) string {
	if c == "true" {
		return a
	}
	if c == "false" {
		return b
	}
	if a == b {
		return a
	}
	return fmt.Sprintf("(ite %s %s %s)", c, a, b)
}

func eq(a, b string) string { return fmt.Sprintf("(= %s %s)", a, b) }

// ---- obligations ----

func (vc *VC) addObl(o *Obl) {
	o.NDecls = len(vc.decls)
	o.NFacts = len(vc.facts)
	vc.obls = append(vc.obls, o)
}

// script renders the SMT-LIB query for one obligation.
func (vc *VC) script(o *Obl, models bool) string {
	var b strings.Builder
	if models {
		b.WriteString("(set-option :produce-models true)\n")
	}
	b.WriteString("(set-logic ALL)\n")
	for _, p := range vc.prelude() {
		b.WriteString(p + "\n")
	}
	for _, d := range vc.decls[:o.NDecls] {
		b.WriteString(d + "\n")
	}
	for _, f := range vc.facts[:o.NFacts] {
		b.WriteString("(assert " + f + ")\n")
	}
	for _, f := range o.Extra {
		b.WriteString("(assert " + f + ")\n")
	}
	b.WriteString("(assert " + o.PC + ")\n")
	if o.Vacuity {
		// reachability probe: is the path condition satisfiable?
	} else {
		b.WriteString("(assert (not " + o.Goal + "))\n")
	}
	b.WriteString("(check-sat)\n")
	if models {
		vars := append([]string{}, vc.inputs...)
		vars = append(vars, o.ModelVars...)
		sort.Strings(vars)
		seen := map[string]bool{}
		for _, v := range vars {
			if seen[v] || !vc.declared["const:"+v] {
				continue
			}
			seen[v] = true
		}
		b.WriteString("(get-model)\n")
	}
	return b.String()
}
