package main

// expr.go: evaluation of Go expressions and lvalues to SMT terms.

import (
	"fmt"
	"go/ast"
	"go/constant"
	"go/token"
	"go/types"
	"strings"
)

// ---- lvalues ----

type lval struct {
	kind  string // var, global, deref, field, index, mapidx, blank
	obj   types.Object
	base  *lval
	ptr   Val
	field string
	idx   Val
	typ   types.Type // type of the denoted location
	key   string
}

func (x *Exec) lvOf(st *State, e ast.Expr) *lval {
	switch e := e.(type) {
	case *ast.ParenExpr:
		return x.lvOf(st, e.X)
	case *ast.Ident:
		if e.Name == "_" {
			return &lval{kind: "blank"}
		}
		obj := x.objOf(e)
		if v, ok := obj.(*types.Var); ok {
			if x.isGlobal(v) {
				return &lval{kind: "global", obj: v, typ: v.Type(), key: "V:" + v.Pkg().Path() + "." + v.Name()}
			}
			return &lval{kind: "var", obj: v, typ: v.Type()}
		}
		panic(unsupported("lvalue identifier " + e.Name))
	case *ast.StarExpr:
		p := x.ev(st, e.X)
		return &lval{kind: "deref", ptr: p, typ: x.typeOf(e)}
	case *ast.SelectorExpr:
		sel := x.selOf(e)
		if sel == nil {
			// package-qualified global
			if obj, ok := x.objOf(e.Sel).(*types.Var); ok {
				return &lval{kind: "global", obj: obj, typ: obj.Type(), key: "V:" + obj.Pkg().Path() + "." + obj.Name()}
			}
			panic(unsupported("lvalue selector"))
		}
		if sel.Kind() != types.FieldVal {
			panic(unsupported("method value as lvalue"))
		}
		if len(sel.Index()) == 1 && x.lvWrite {
			x.ownCheck(st, e.X, e.Sel.Name, true, e.Pos())
		}
		// walk the (possibly promoted) field path
		var cur *lval
		t := x.typeOf(e.X)
		if _, isPtr := t.Underlying().(*types.Pointer); isPtr {
			p := x.ev(st, e.X)
			cur = &lval{kind: "deref", ptr: p, typ: t.Underlying().(*types.Pointer).Elem()}
		} else {
			cur = x.lvOrTemp(st, e.X)
		}
		for _, fi := range sel.Index() {
			stt, ok := cur.typ.Underlying().(*types.Struct)
			if !ok {
				// implicit dereference of an embedded pointer
				pt := cur.typ.Underlying().(*types.Pointer)
				p := x.load(st, cur)
				cur = &lval{kind: "deref", ptr: p, typ: pt.Elem()}
				stt = pt.Elem().Underlying().(*types.Struct)
			}
			f := stt.Field(fi)
			cur = &lval{kind: "field", base: cur, field: f.Name(), typ: f.Type()}
		}
		return cur
	case *ast.IndexExpr:
		bt := x.typeOf(e.X)
		switch u := bt.Underlying().(type) {
		case *types.Map:
			base := x.lvOrTemp(st, e.X)
			k := x.ev(st, e.Index)
			k = x.convertTo(st, k, u.Key())
			return &lval{kind: "mapidx", base: base, idx: k, typ: u.Elem()}
		case *types.Slice:
			base := x.lvOrTemp(st, e.X)
			i := x.ev(st, e.Index)
			return &lval{kind: "index", base: base, idx: i, typ: u.Elem()}
		case *types.Array:
			base := x.lvOrTemp(st, e.X)
			i := x.ev(st, e.Index)
			return &lval{kind: "aindex", base: base, idx: i, typ: u.Elem()}
		case *types.Pointer:
			if at, ok := u.Elem().Underlying().(*types.Array); ok {
				p := x.ev(st, e.X)
				base := &lval{kind: "deref", ptr: p, typ: u.Elem()}
				i := x.ev(st, e.Index)
				return &lval{kind: "aindex", base: base, idx: i, typ: at.Elem()}
			}
		}
		panic(unsupported(fmt.Sprintf("index lvalue on %s", bt)))
	}
	panic(unsupported(fmt.Sprintf("lvalue %T", e)))
}

// lvOrTemp: an lvalue for e if it is addressable, else a temporary holding its value.
func (x *Exec) lvOrTemp(st *State, e ast.Expr) *lval {
	switch ee := e.(type) {
	case *ast.Ident, *ast.StarExpr, *ast.IndexExpr, *ast.ParenExpr:
		if id, ok := ee.(*ast.Ident); ok {
			if _, isVar := x.objOf(id).(*types.Var); !isVar {
				break
			}
		}
		return x.lvOf(st, e)
	case *ast.SelectorExpr:
		if sel := x.selOf(ee); sel != nil && sel.Kind() == types.FieldVal {
			return x.lvOf(st, e)
		}
		if sel := x.selOf(ee); sel == nil {
			if _, ok := x.objOf(ee.Sel).(*types.Var); ok {
				return x.lvOf(st, e)
			}
		}
	}
	v := x.ev(st, e)
	return &lval{kind: "temp", ptr: v, typ: x.typeOf(e)}
}

func (x *Exec) load(st *State, lv *lval) Val {
	switch lv.kind {
	case "temp":
		return lv.ptr
	case "var":
		return x.getVar(st, lv.obj)
	case "global":
		return x.globalVal(st, lv.obj.(*types.Var))
	case "deref":
		return x.deref(st, lv.ptr, lv.typ)
	case "field":
		b := x.load(st, lv.base)
		v, ok := x.vc.selField(b, lv.field)
		if !ok {
			if stt, isS := lv.base.typ.Underlying().(*types.Struct); isS {
				for i := 0; i < stt.NumFields(); i++ {
					if stt.Field(i).Name() == lv.field {
						return x.opaqueField(b, lv.base.typ, stt.Field(i))
					}
				}
			}
			panic(unsupported(fmt.Sprintf("field %s on sort %s", lv.field, b.Sort)))
		}
		return v
	case "index":
		b := x.load(st, lv.base)
		return x.vc.slIndex(b, lv.idx.T)
	case "aindex":
		b := x.load(st, lv.base)
		es := x.vc.sortOf(lv.typ)
		return Val{T: fmt.Sprintf("(select %s %s)", b.T, lv.idx.T), Sort: es, GoT: lv.typ}
	case "mapidx":
		b := x.load(st, lv.base)
		v := x.vc.mapVal(b, lv.idx.T)
		v.T = ite(x.vc.mapDom(b, lv.idx.T), v.T, x.vc.zero(v.Sort))
		return v
	}
	panic(unsupported("load of lvalue kind " + lv.kind))
}

func (x *Exec) storeLV(st *State, lv *lval, v Val) {
	switch lv.kind {
	case "blank", "temp":
		return
	case "var":
		x.setVar(st, lv.obj, v)
	case "global":
		v.GoT = lv.typ
		st.heap[lv.key] = x.name(lv.obj.Name(), v)
	case "deref":
		x.ownCheckWrite(st, lv)
		x.storeRef(st, lv.ptr, lv.typ, v)
	case "field":
		b := x.load(st, lv.base)
		nb := b
		nb.T = x.vc.updField(b, lv.field, v.T)
		x.storeLV(st, lv.base, x.name("upd", nb))
	case "index":
		b := x.load(st, lv.base)
		nb := b
		nb.T = x.vc.mkSlice(b.Sort, fmt.Sprintf("(store %s %s %s)", x.vc.slArr(b), lv.idx.T, v.T), x.vc.slLen(b), fmt.Sprintf("(%s_nil %s)", b.Sort, b.T))
		x.vc.note("slice element write treated as a value update (no aliasing between slices)")
		x.storeLV(st, lv.base, x.name("upd", nb))
	case "aindex":
		b := x.load(st, lv.base)
		nb := b
		nb.T = fmt.Sprintf("(store %s %s %s)", b.T, lv.idx.T, v.T)
		x.storeLV(st, lv.base, x.name("upd", nb))
	case "mapidx":
		b := x.load(st, lv.base)
		nb := b
		nb.T = x.vc.mapStore(b, lv.idx.T, v.T)
		x.storeLV(st, lv.base, x.name("upd", nb))
	default:
		panic(unsupported("store to lvalue kind " + lv.kind))
	}
}

func (x *Exec) ownCheckWrite(st *State, lv *lval) {}

// ---- globals ----

func (x *Exec) globalVal(st *State, v *types.Var) Val {
	key := "V:" + v.Pkg().Path() + "." + v.Name()
	if val, ok := st.heap[key]; ok {
		return val
	}
	if sv, ok := x.specialGlobal(v); ok {
		return sv
	}
	srt := x.vc.sortOf(v.Type())
	// immutable package-level variable with an initializer we can evaluate?
	if gi := x.prog.globalInit(v); gi != nil {
		if cached, ok := x.prog.tmpGlobals[x][key]; ok {
			return cached
		}
		var val Val
		if gi.isErrSentinel {
			n := "errc_" + sanitize(v.Pkg().Name()+"_"+v.Name())
			x.vc.declConst(n, srt)
			x.vc.termFact(not(eq(n, x.vc.nilTerm(srt))))
			for _, o := range x.errGlobals {
				if o != n {
					x.vc.termFact(not(eq(n, o)))
				}
			}
			seen := false
			for _, o := range x.errGlobals {
				if o == n {
					seen = true
				}
			}
			if !seen {
				x.errGlobals = append(x.errGlobals, n)
			}
			val = Val{T: n, Sort: srt, GoT: v.Type()}
		} else if gi.expr != nil {
			// evaluate the initializer in a scratch state (must be side-effect free)
			scratch := &State{pc: "true", vars: map[types.Object]Val{}, heap: map[string]Val{}}
			func() {
				defer func() {
					if r := recover(); r != nil {
						if _, ok := r.(unsupportedErr); ok {
							val = Val{}
							return
						}
						panic(r)
					}
				}()
				val = x.ev(scratch, gi.expr)
				val = x.convertTo(scratch, val, v.Type())
			}()
			if val.T != "" {
				n := "glob_" + sanitize(v.Pkg().Name()+"_"+v.Name())
				x.vc.declConst(n, srt)
				x.vc.termFact(eq(n, val.T))
				val = Val{T: n, Sort: srt, GoT: v.Type()}
			}
		}
		if val.T != "" {
			if x.prog.tmpGlobals[x] == nil {
				x.prog.tmpGlobals[x] = map[string]Val{}
			}
			x.prog.tmpGlobals[x][key] = val
			return val
		}
	}
	val := x.lookupHeap(st, key, srt)
	val.GoT = v.Type()
	return val
}

// ---- expressions ----

func (x *Exec) evCond(st *State, e ast.Expr) string {
	v := x.ev(st, e)
	if v.Sort != "Bool" {
		panic(unsupported("non-boolean condition"))
	}
	return v.T
}

func (x *Exec) constVal(tv types.TypeAndValue) (Val, bool) {
	if tv.Value == nil {
		return Val{}, false
	}
	t := tv.Type
	switch tv.Value.Kind() {
	case constant.Bool:
		if constant.BoolVal(tv.Value) {
			return Val{T: "true", Sort: "Bool", GoT: t}, true
		}
		return Val{T: "false", Sort: "Bool", GoT: t}, true
	case constant.Int:
		if b, ok := t.Underlying().(*types.Basic); ok && b.Info()&types.IsFloat != 0 {
			return Val{T: tv.Value.ExactString() + ".0", Sort: "Real", GoT: t}, true
		}
		return Val{T: x.vc.bigLit(tv.Value.ExactString()), Sort: x.vc.intSort(), GoT: t}, true
	case constant.String:
		return Val{T: x.vc.strLit(constant.StringVal(tv.Value)), Sort: "Str", GoT: t}, true
	case constant.Float:
		f, _ := constant.Float64Val(tv.Value)
		s := fmt.Sprintf("%f", f)
		if f < 0 {
			s = fmt.Sprintf("(- %f)", -f)
		}
		return Val{T: s, Sort: "Real", GoT: t}, true
	}
	return Val{}, false
}

func (x *Exec) ev(st *State, e ast.Expr) Val {
	if tv, ok := x.tvOf(e); ok && tv.Value != nil {
		if v, ok := x.constVal(tv); ok {
			return v
		}
	}
	switch e := e.(type) {
	case *ast.ParenExpr:
		return x.ev(st, e.X)
	case *ast.BasicLit:
		panic(unsupported("literal " + e.Value))
	case *ast.Ident:
		return x.evIdent(st, e)
	case *ast.FuncLit:
		// closure value: opaque; remembered so that a later call of the variable can inline it
		v := x.freshVal("closure", x.typeOf(e))
		x.vc.termFact(not(eq(v.T, x.vc.nilTerm(v.Sort))))
		x.prog.litVals[v.T] = e
		return v
	case *ast.CompositeLit:
		return x.evComposite(st, e, false)
	case *ast.UnaryExpr:
		return x.evUnary(st, e)
	case *ast.BinaryExpr:
		return x.evBinary(st, e)
	case *ast.StarExpr:
		p := x.ev(st, e.X)
		x.nilCheck(st, p, e.Pos())
		return x.deref(st, p, x.typeOf(e))
	case *ast.SelectorExpr:
		return x.evSelector(st, e)
	case *ast.IndexExpr:
		return x.evIndex(st, e)
	case *ast.SliceExpr:
		return x.evSliceExpr(st, e)
	case *ast.CallExpr:
		vs := x.evCall(st, e)
		if len(vs) != 1 {
			panic(unsupported(fmt.Sprintf("call with %d results used as a value", len(vs))))
		}
		return vs[0]
	case *ast.TypeAssertExpr:
		v := x.ev(st, e.X)
		tt := x.typeOf(e)
		if _, isIface := tt.Underlying().(*types.Interface); !isIface && x.vc.info(v.Sort) != nil && x.vc.info(v.Sort).Kind == kOpaque {
			// v.(T) with T concrete: the unboxed value; execution continues only if the dynamic type is T
			_, unbox, id := x.boxFuncsFor(x.vc.sortOf(tt), tt, v.Sort)
			x.assume(st, fmt.Sprintf("(= (dyntag_%s %s) %d)", v.Sort, v.T, id))
			return Val{T: fmt.Sprintf("(%s %s)", unbox, v.T), Sort: x.vc.sortOf(tt), GoT: tt}
		}
		x.vc.note("type assertion to an interface type: result unconstrained")
		return x.havocVal(st, "tassert", tt)
	case *ast.KeyValueExpr:
		panic(unsupported("key-value outside composite literal"))
	}
	panic(unsupported(fmt.Sprintf("expression %T", e)))
}

func (x *Exec) evMulti(st *State, e ast.Expr, n int) []Val {
	switch e := e.(type) {
	case *ast.ParenExpr:
		return x.evMulti(st, e.X, n)
	case *ast.CallExpr:
		vs := x.evCall(st, e)
		if len(vs) != n {
			panic(unsupported("result count mismatch"))
		}
		return vs
	case *ast.IndexExpr:
		// v, ok := m[k]
		m := x.ev(st, e.X)
		mt := x.typeOf(e.X).Underlying().(*types.Map)
		k := x.convertTo(st, x.ev(st, e.Index), mt.Key())
		ok := x.vc.mapDom(m, k.T)
		zero := x.vc.zero(x.vc.info(m.Sort).Elem)
		v := x.vc.mapVal(m, k.T)
		v.T = ite(ok, v.T, zero)
		return []Val{v, {T: ok, Sort: "Bool", GoT: types.Typ[types.Bool]}}
	case *ast.TypeAssertExpr:
		v := x.ev(st, e.X)
		tt := x.typeOf(e.Type)
		if _, isIface := tt.Underlying().(*types.Interface); !isIface && x.vc.info(v.Sort) != nil && x.vc.info(v.Sort).Kind == kOpaque {
			_, unbox, id := x.boxFuncsFor(x.vc.sortOf(tt), tt, v.Sort)
			ok := fmt.Sprintf("(= (dyntag_%s %s) %d)", v.Sort, v.T, id)
			ts := x.vc.sortOf(tt)
			val := Val{T: ite(ok, fmt.Sprintf("(%s %s)", unbox, v.T), x.vc.zero(ts)), Sort: ts, GoT: tt}
			return []Val{val, {T: ok, Sort: "Bool", GoT: types.Typ[types.Bool]}}
		}
		x.vc.note("type assertion to an interface type: result unconstrained")
		okv := x.havocVal(st, "ok", types.Typ[types.Bool])
		return []Val{x.havocVal(st, "tassert", tt), okv}
	case *ast.UnaryExpr:
		if e.Op == token.ARROW {
			x.ev(st, e.X)
			x.vc.note("channel receive: value unconstrained")
			ct := x.typeOf(e.X).Underlying().(*types.Chan)
			return []Val{x.havocVal(st, "recv", ct.Elem()), x.havocVal(st, "ok", types.Typ[types.Bool])}
		}
	}
	panic(unsupported(fmt.Sprintf("multi-value expression %T", e)))
}

func (x *Exec) evIdent(st *State, e *ast.Ident) Val {
	obj := x.objOf(e)
	switch o := obj.(type) {
	case *types.Nil:
		return Val{T: "nil", Sort: "Nil"}
	case *types.Const:
		if v, ok := x.constVal(types.TypeAndValue{Type: o.Type(), Value: o.Val()}); ok {
			return v
		}
	case *types.Var:
		if x.isGlobal(o) {
			return x.globalVal(st, o)
		}
		return x.getVar(st, o)
	case *types.Func:
		v := x.freshVal("funcval", o.Type())
		return v
	}
	if e.Name == "true" {
		return Val{T: "true", Sort: "Bool", GoT: types.Typ[types.Bool]}
	}
	if e.Name == "false" {
		return Val{T: "false", Sort: "Bool", GoT: types.Typ[types.Bool]}
	}
	panic(unsupported("identifier " + e.Name))
}

func (x *Exec) nilCheck(st *State, p Val, pos token.Pos) {
	nz := not(eq(p.T, x.vc.nilTerm(p.Sort)))
	if x.safety {
		x.assert(st, "nil", nz, "nil dereference", pos)
	}
	// partial correctness: execution continues only if the pointer is non-nil
	x.assume(st, nz)
}

func (x *Exec) evSelector(st *State, e *ast.SelectorExpr) Val {
	sel := x.selOf(e)
	if sel == nil {
		// qualified identifier pkg.Name
		obj := x.objOf(e.Sel)
		switch o := obj.(type) {
		case *types.Var:
			return x.globalVal(st, o)
		case *types.Const:
			if v, ok := x.constVal(types.TypeAndValue{Type: o.Type(), Value: o.Val()}); ok {
				return v
			}
		case *types.Func:
			return x.freshVal("funcval", o.Type())
		}
		panic(unsupported("qualified identifier " + e.Sel.Name))
	}
	if sel.Kind() != types.FieldVal {
		// method value (e.g. passing a method as a handler)
		x.ev(st, e.X)
		return x.freshVal("methodval", x.typeOf(e))
	}
	if len(sel.Index()) == 1 {
		x.ownCheck(st, e.X, e.Sel.Name, false, e.Pos())
	}
	cur := x.ev(st, e.X)
	t := x.typeOf(e.X)
	for _, fi := range sel.Index() {
		if pt, ok := t.Underlying().(*types.Pointer); ok {
			x.nilCheck(st, cur, e.Pos())
			cur = x.deref(st, cur, pt.Elem())
			t = pt.Elem()
		}
		stt := t.Underlying().(*types.Struct)
		f := stt.Field(fi)
		v, ok := x.vc.selField(cur, f.Name())
		if !ok {
			// a library struct kept opaque: its fields are uninterpreted functions of the value
			v = x.opaqueField(cur, t, f)
		}
		cur = v
		t = f.Type()
	}
	if inf := x.vc.info(cur.Sort); inf != nil && (inf.Kind == kMap || inf.Kind == kSlice) && !strings.Contains(cur.T, "!q") {
		if w := x.vc.wf(cur); w != "true" && w != "" {
			x.vc.termFact(w)
		}
	}
	// a field of unsigned integer type holds a non-negative value
	if isInteger(t) && isUnsigned(t) && !x.vc.bv {
		x.assume(st, x.vc.cmp(">=", cur.T, x.vc.intLit(0), true))
	}
	return cur
}

// opaqueField: field f of an opaque (library) struct value
func (x *Exec) opaqueField(base Val, t types.Type, f *types.Var) Val {
	fs := x.vc.sortOf(f.Type())
	name := opaqueFieldName(t, f.Name())
	x.vc.declFun(name, []string{base.Sort}, fs)
	x.vc.note("field " + f.Name() + " of library struct " + typeKey(t) + " read as an uninterpreted function (writes to it are not modelled)")
	return Val{T: fmt.Sprintf("(%s %s)", name, base.T), Sort: fs, GoT: f.Type()}
}

func (x *Exec) evIndex(st *State, e *ast.IndexExpr) Val {
	bt := x.typeOf(e.X)
	switch u := bt.Underlying().(type) {
	case *types.Map:
		m := x.ev(st, e.X)
		k := x.convertTo(st, x.ev(st, e.Index), u.Key())
		v := x.vc.mapVal(m, k.T)
		zero := x.vc.zero(v.Sort)
		v.T = ite(x.vc.mapDom(m, k.T), v.T, zero)
		return v
	case *types.Slice:
		s := x.ev(st, e.X)
		i := x.ev(st, e.Index)
		x.boundsCheck(st, i.T, x.vc.slLen(s), false, e.Pos())
		return x.vc.slIndex(s, i.T)
	case *types.Array:
		a := x.ev(st, e.X)
		i := x.ev(st, e.Index)
		return Val{T: fmt.Sprintf("(select %s %s)", a.T, i.T), Sort: x.vc.sortOf(u.Elem()), GoT: u.Elem()}
	case *types.Basic:
		// string indexing: uninterpreted
		s := x.ev(st, e.X)
		i := x.ev(st, e.Index)
		x.vc.declFun("str_at", []string{"Str", x.vc.intSort()}, x.vc.intSort())
		return Val{T: fmt.Sprintf("(str_at %s %s)", s.T, i.T), Sort: x.vc.intSort(), GoT: types.Typ[types.Byte]}
	case *types.Pointer:
		if at, ok := u.Elem().Underlying().(*types.Array); ok {
			p := x.ev(st, e.X)
			a := x.deref(st, p, u.Elem())
			i := x.ev(st, e.Index)
			return Val{T: fmt.Sprintf("(select %s %s)", a.T, i.T), Sort: x.vc.sortOf(at.Elem()), GoT: at.Elem()}
		}
	case *types.Signature:
		panic(unsupported("generic instantiation"))
	}
	panic(unsupported(fmt.Sprintf("index on %s", bt)))
}

func (x *Exec) boundsCheck(st *State, i, n string, inclusive bool, pos token.Pos) {
	up := x.vc.cmp("<", i, n, true)
	if inclusive {
		up = x.vc.cmp("<=", i, n, true)
	}
	c := and(x.vc.cmp("<=", x.vc.intLit(0), i, true), up)
	if x.safety {
		x.assert(st, "bounds", c, "index in range", pos)
	}
	x.assume(st, c)
}

func (x *Exec) evSliceExpr(st *State, e *ast.SliceExpr) Val {
	bt := x.typeOf(e.X)
	if _, ok := bt.Underlying().(*types.Slice); !ok {
		if b, ok := bt.Underlying().(*types.Basic); ok && b.Info()&types.IsString != 0 {
			s := x.ev(st, e.X)
			lo, hi := x.vc.intLit(0), ""
			if e.Low != nil {
				lo = x.ev(st, e.Low).T
			}
			x.vc.declFun("str_len", []string{"Str"}, x.vc.intSort())
			if e.High != nil {
				hi = x.ev(st, e.High).T
			} else {
				hi = fmt.Sprintf("(str_len %s)", s.T)
			}
			x.vc.declFun("str_sub", []string{"Str", x.vc.intSort(), x.vc.intSort()}, "Str")
			return Val{T: fmt.Sprintf("(str_sub %s %s %s)", s.T, lo, hi), Sort: "Str", GoT: bt}
		}
		// arrays: produce an unconstrained slice
		x.ev(st, e.X)
		x.vc.note("slice of array: result unconstrained")
		return x.havocVal(st, "slc", x.typeOf(e))
	}
	s := x.ev(st, e.X)
	s = x.name("sl", s)
	lo := x.vc.intLit(0)
	if e.Low != nil {
		lo = x.ev(st, e.Low).T
	}
	hi := x.vc.slLen(s)
	if e.High != nil {
		hi = x.ev(st, e.High).T
	}
	// 0 <= lo <= hi <= cap; capacity is not modelled: we check against len unless the slice was made with spare capacity
	c := and(x.vc.cmp("<=", x.vc.intLit(0), lo, true), x.vc.cmp("<=", lo, hi, true))
	if x.safety {
		x.assert(st, "bounds", and(c, x.vc.cmp("<=", hi, x.vc.slLen(s), true)), "slice bounds in range (against len; capacity not modelled)", e.Pos())
	}
	x.assume(st, and(c, x.vc.cmp("<=", hi, x.vc.slLen(s), true)))
	return x.subSlice(s, lo, hi)
}

// subSlice: s[lo:hi] as a new slice value whose element i is s[lo+i]
func (x *Exec) subSlice(s Val, lo, hi string) Val {
	inf := x.vc.info(s.Sort)
	if lo == x.vc.intLit(0) {
		return Val{T: x.vc.mkSlice(s.Sort, x.vc.slArr(s), hi, fmt.Sprintf("(%s_nil %s)", s.Sort, s.T)), Sort: s.Sort, GoT: s.GoT}
	}
	arr := x.vc.fresh("subarr", fmt.Sprintf("(Array %s %s)", x.vc.intSort(), inf.Elem))
	x.vc.fact(fmt.Sprintf("(forall ((i!s %s)) (! (= (select %s i!s) (select %s %s)) :pattern ((select %s i!s))))",
		x.vc.intSort(), arr, x.vc.slArr(s), x.vc.arith("+", "i!s", lo, true), arr))
	return Val{T: x.vc.mkSlice(s.Sort, arr, x.vc.arith("-", hi, lo, true), "false"), Sort: s.Sort, GoT: s.GoT}
}

func (x *Exec) evUnary(st *State, e *ast.UnaryExpr) Val {
	switch e.Op {
	case token.NOT:
		v := x.ev(st, e.X)
		return Val{T: not(v.T), Sort: "Bool", GoT: v.GoT}
	case token.SUB:
		v := x.ev(st, e.X)
		if v.Sort == "Real" {
			return Val{T: fmt.Sprintf("(- %s)", v.T), Sort: v.Sort, GoT: v.GoT}
		}
		return Val{T: x.vc.arith("-", x.vc.intLit(0), v.T, true), Sort: v.Sort, GoT: v.GoT}
	case token.ADD:
		return x.ev(st, e.X)
	case token.XOR:
		v := x.ev(st, e.X)
		if x.vc.bv {
			return Val{T: fmt.Sprintf("(bvnot %s)", v.T), Sort: v.Sort, GoT: v.GoT}
		}
		x.vc.declFun("bit_not", []string{"Int"}, "Int")
		return Val{T: fmt.Sprintf("(bit_not %s)", v.T), Sort: v.Sort, GoT: v.GoT}
	case token.ARROW:
		if c := x.recvContract(e.X); c != nil {
			x.applyRecv(st, e.X, c, true, e.Pos())
			return x.havocVal(st, "recv", x.typeOf(e))
		}
		x.ev(st, e.X)
		x.noteCtxDone(st, e.X)
		x.vc.note("channel receive: value unconstrained")
		return x.havocVal(st, "recv", x.typeOf(e))
	case token.AND:
		return x.evAddr(st, e.X, x.typeOf(e))
	}
	panic(unsupported("unary " + e.Op.String()))
}

// evAddr: &operand
func (x *Exec) evAddr(st *State, operand ast.Expr, ptrT types.Type) Val {
	switch o := operand.(type) {
	case *ast.ParenExpr:
		return x.evAddr(st, o.X, ptrT)
	case *ast.CompositeLit:
		v := x.evComposite(st, o, false)
		r := x.alloc(st)
		r.GoT = ptrT
		x.storeRef(st, r, x.typeOf(o), v)
		return r
	case *ast.Ident:
		obj := x.objOf(o)
		if v, ok := obj.(*types.Var); ok && !x.isGlobal(v) {
			if !x.boxed[v] {
				panic(unsupported("address of unboxed variable " + v.Name()))
			}
			x.getVar(st, v) // make sure it is allocated
			r := st.vars[v]
			r.GoT = ptrT
			return r
		}
		if v, ok := obj.(*types.Var); ok {
			// address of a global: copy-in reference
			cur := x.globalVal(st, v)
			r := x.alloc(st)
			r.GoT = ptrT
			x.storeRef(st, r, v.Type(), cur)
			x.vc.note("address of package-level variable " + v.Name() + " taken: treated as a copy")
			return r
		}
	case *ast.StarExpr:
		return x.ev(st, o.X)
	}
	// interior pointer (&p.f, &s[i]): a fresh reference holding a copy of the current value
	lv := x.lvOf(st, operand)
	cur := x.load(st, lv)
	r := x.alloc(st)
	r.GoT = ptrT
	x.storeRef(st, r, lv.typ, cur)
	x.vc.note("interior pointer taken: modelled as a copy (reads only; written back after a direct call)")
	x.prog.interior[r.T] = lv
	x.interiors = append(x.interiors, interiorPtr{ref: r, lv: lv, pc: st.pc})
	return r
}

func (x *Exec) evBinary(st *State, e *ast.BinaryExpr) Val {
	switch e.Op {
	case token.LAND, token.LOR:
		l := x.ev(st, e.X)
		if !hasCall(e.Y) {
			// the right operand is evaluated under the guard of the left one
			g := l.T
			if e.Op == token.LOR {
				g = not(l.T)
			}
			sub := st.clone()
			x.assume(sub, g)
			r := x.ev(sub, e.Y)
			// facts learnt by evaluating (e.g. lazily created heaps) are kept
			for k, v := range sub.heap {
				if _, ok := st.heap[k]; !ok {
					st.heap[k] = v
				}
			}
			for k, v := range sub.vars {
				if _, ok := st.vars[k]; !ok {
					st.vars[k] = v
				}
			}
			if e.Op == token.LAND {
				return Val{T: and(l.T, r.T), Sort: "Bool", GoT: types.Typ[types.Bool]}
			}
			return Val{T: or(l.T, r.T), Sort: "Bool", GoT: types.Typ[types.Bool]}
		}
		// right operand has calls: branch and merge
		g := l.T
		if e.Op == token.LOR {
			g = not(l.T)
		}
		evalSt := st.clone()
		x.assume(evalSt, g)
		r := x.ev(evalSt, e.Y)
		skipSt := st.clone()
		x.assume(skipSt, not(g))
		res := x.vc.fresh("sc", "Bool")
		if e.Op == token.LAND {
			x.vc.fact(eq(res, and(l.T, r.T)))
		} else {
			x.vc.fact(eq(res, or(l.T, r.T)))
		}
		m := x.merge([]*State{evalSt, skipSt})
		*st = *m
		return Val{T: res, Sort: "Bool", GoT: types.Typ[types.Bool]}
	}
	l := x.ev(st, e.X)
	r := x.ev(st, e.Y)
	return x.binop(st, e.Op.String(), l, r, x.typeOf(e.X))
}

func hasCall(e ast.Expr) bool {
	found := false
	ast.Inspect(e, func(n ast.Node) bool {
		if _, ok := n.(*ast.CallExpr); ok {
			found = true
		}
		return !found
	})
	return found
}

func (x *Exec) equalVals(st *State, l, r Val) string {
	if l.Sort == "Nil" && r.Sort == "Nil" {
		return "true"
	}
	if l.Sort == "Nil" {
		return x.vc.isNil(r)
	}
	if r.Sort == "Nil" {
		return x.vc.isNil(l)
	}
	if l.Sort != r.Sort {
		// comparison between an interface and a concrete value: box the concrete one
		if inf := x.vc.info(l.Sort); inf != nil && inf.Kind == kOpaque {
			r = x.convertTo(st, r, l.GoT.(types.Type))
		} else if inf := x.vc.info(r.Sort); inf != nil && inf.Kind == kOpaque {
			l = x.convertTo(st, l, r.GoT.(types.Type))
		} else {
			panic(unsupported(fmt.Sprintf("comparison of sorts %s and %s", l.Sort, r.Sort)))
		}
	}
	return eq(l.T, r.T)
}

func (x *Exec) binop(st *State, op string, l, r Val, operandT types.Type) Val {
	boolT := types.Typ[types.Bool]
	switch op {
	case "==":
		return Val{T: x.equalVals(st, l, r), Sort: "Bool", GoT: boolT}
	case "!=":
		return Val{T: not(x.equalVals(st, l, r)), Sort: "Bool", GoT: boolT}
	}
	signed := !isUnsigned(operandT)
	if l.Sort == "Str" {
		switch op {
		case "+":
			x.vc.declFun("str_concat", []string{"Str", "Str"}, "Str")
			x.vc.termFact(fmt.Sprintf("(forall ((a!s Str)) (! (and (= (str_concat a!s str_empty) a!s) (= (str_concat str_empty a!s) a!s)) :pattern ((str_concat a!s str_empty)) :pattern ((str_concat str_empty a!s))))"))
			// a concatenation is empty exactly when both parts are
			x.vc.termFact("(forall ((a!s Str) (b!s Str)) (! (= (= (str_concat a!s b!s) str_empty) (and (= a!s str_empty) (= b!s str_empty))) :pattern ((str_concat a!s b!s))))")
			return Val{T: fmt.Sprintf("(str_concat %s %s)", l.T, r.T), Sort: "Str", GoT: l.GoT}
		case "<", "<=", ">", ">=":
			x.vc.declFun("str_lt", []string{"Str", "Str"}, "Bool")
			lt := func(a, b string) string { return fmt.Sprintf("(str_lt %s %s)", a, b) }
			switch op {
			case "<":
				return Val{T: lt(l.T, r.T), Sort: "Bool", GoT: boolT}
			case ">":
				return Val{T: lt(r.T, l.T), Sort: "Bool", GoT: boolT}
			case "<=":
				return Val{T: not(lt(r.T, l.T)), Sort: "Bool", GoT: boolT}
			case ">=":
				return Val{T: not(lt(l.T, r.T)), Sort: "Bool", GoT: boolT}
			}
		}
		panic(unsupported("string operator " + op))
	}
	if l.Sort == "Real" || r.Sort == "Real" {
		if l.Sort != "Real" {
			l = Val{T: fmt.Sprintf("(to_real %s)", l.T), Sort: "Real"}
		}
		if r.Sort != "Real" {
			r = Val{T: fmt.Sprintf("(to_real %s)", r.T), Sort: "Real"}
		}
		switch op {
		case "+", "-", "*", "/":
			return Val{T: fmt.Sprintf("(%s %s %s)", op, l.T, r.T), Sort: "Real", GoT: operandT}
		case "<", "<=", ">", ">=":
			return Val{T: fmt.Sprintf("(%s %s %s)", op, l.T, r.T), Sort: "Bool", GoT: boolT}
		}
		panic(unsupported("float operator " + op))
	}
	switch op {
	case "<", "<=", ">", ">=":
		return Val{T: x.vc.cmp(op, l.T, r.T, signed), Sort: "Bool", GoT: boolT}
	case "+", "-", "*", "/", "%", "&", "|", "^", "<<", ">>", "&^":
		if (op == "/" || op == "%") && x.safety {
			x.assert(st, "div", not(eq(r.T, x.vc.intLit(0))), "division by zero", x.curPos)
		}
		return Val{T: x.vc.arith(op, l.T, r.T, signed), Sort: l.Sort, GoT: operandT}
	}
	panic(unsupported("binary operator " + op))
}

// ---- composite literals ----

func (x *Exec) evComposite(st *State, e *ast.CompositeLit, _ bool) Val {
	t := x.typeOf(e)
	srt := x.vc.sortOf(t)
	switch u := t.Underlying().(type) {
	case *types.Struct:
		inf := x.vc.info(srt)
		if inf == nil || inf.Kind != kStruct {
			// a library struct kept opaque: the literal is a fresh value whose uninterpreted field functions
			// hold the keyed elements (zero for the fields left out); an unkeyed literal stays arbitrary
			given := map[string]Val{}
			keyed := true
			for _, el := range e.Elts {
				if kv, ok := el.(*ast.KeyValueExpr); ok {
					var ft types.Type
					if id, ok := kv.Key.(*ast.Ident); ok {
						for i := 0; i < u.NumFields(); i++ {
							if u.Field(i).Name() == id.Name {
								ft = u.Field(i).Type()
							}
						}
						if ft != nil {
							given[id.Name] = x.evElt(st, kv.Value, ft)
							continue
						}
					}
					x.ev(st, kv.Value)
					keyed = false
				} else {
					x.ev(st, el)
					keyed = false
				}
			}
			lit := x.havocVal(st, "lit", t)
			if keyed {
				for i := 0; i < u.NumFields(); i++ {
					f := u.Field(i)
					fs := x.vc.sortOf(f.Type())
					fn := opaqueFieldName(t, f.Name())
					x.vc.declFun(fn, []string{lit.Sort}, fs)
					if v, ok := given[f.Name()]; ok {
						x.vc.termFact(eq(fmt.Sprintf("(%s %s)", fn, lit.T), v.T))
					} else if len(given) > 0 {
						x.vc.termFact(eq(fmt.Sprintf("(%s %s)", fn, lit.T), x.vc.zero(fs)))
					}
				}
			}
			return lit
		}
		vals := make([]string, len(inf.Fields))
		for i, f := range inf.Fields {
			vals[i] = x.vc.zero(f.Sort)
		}
		for i, el := range e.Elts {
			if kv, ok := el.(*ast.KeyValueExpr); ok {
				name := kv.Key.(*ast.Ident).Name
				for j, f := range inf.Fields {
					if f.Name == name {
						v := x.evElt(st, kv.Value, f.GoT)
						vals[j] = v.T
					}
				}
			} else {
				v := x.evElt(st, el, inf.Fields[i].GoT)
				vals[i] = v.T
			}
		}
		if len(vals) == 0 {
			return Val{T: "mk_" + srt, Sort: srt, GoT: t}
		}
		return x.name("lit", Val{T: fmt.Sprintf("(mk_%s %s)", srt, strings.Join(vals, " ")), Sort: srt, GoT: t})
	case *types.Slice:
		inf := x.vc.info(srt)
		arr := x.vc.constArr(x.vc.intSort(), inf.Elem)
		n := int64(0)
		for _, el := range e.Elts {
			if kv, ok := el.(*ast.KeyValueExpr); ok {
				_ = kv
				panic(unsupported("indexed slice literal"))
			}
			v := x.evElt(st, el, u.Elem())
			arr = fmt.Sprintf("(store %s %s %s)", arr, x.vc.intLit(n), v.T)
			n++
		}
		return x.name("lit", Val{T: x.vc.mkSlice(srt, arr, x.vc.intLit(n), "false"), Sort: srt, GoT: t})
	case *types.Array:
		inf := x.vc.info(srt)
		arr := x.vc.constArr(x.vc.intSort(), inf.Elem)
		for i, el := range e.Elts {
			v := x.evElt(st, el, u.Elem())
			arr = fmt.Sprintf("(store %s %s %s)", arr, x.vc.intLit(int64(i)), v.T)
		}
		return x.name("lit", Val{T: arr, Sort: srt, GoT: t})
	case *types.Map:
		m := Val{T: x.vc.emptyMap(srt), Sort: srt, GoT: t}
		for _, el := range e.Elts {
			kv := el.(*ast.KeyValueExpr)
			k := x.evElt(st, kv.Key, u.Key())
			v := x.evElt(st, kv.Value, u.Elem())
			m.T = x.vc.mapStore(m, k.T, v.T)
			m = x.nameAlways("maplit", m)
		}
		return m
	}
	panic(unsupported(fmt.Sprintf("composite literal of %s", t)))
}

func (x *Exec) evElt(st *State, e ast.Expr, t types.Type) Val {
	if cl, ok := e.(*ast.CompositeLit); ok && cl.Type == nil {
		// elided type: &T{} or T{}
		if pt, isPtr := t.Underlying().(*types.Pointer); isPtr {
			v := x.evComposite(st, cl, false)
			r := x.alloc(st)
			r.GoT = t
			x.storeRef(st, r, pt.Elem(), v)
			return r
		}
	}
	return x.convertTo(st, x.ev(st, e), t)
}

// recvContract: a receive from <timer>.C is governed by the package-local pseudo-extern
// "extern time.Timer.recv()" (ghost timer state machine, DESIGN §5-C02)
func (x *Exec) recvContract(ch ast.Expr) *Contract {
	sel, ok := unparen(ch).(*ast.SelectorExpr)
	if !ok || sel.Sel.Name != "C" {
		return nil
	}
	t := x.typeOf(sel.X)
	if t == nil || t.String() != "*time.Timer" {
		return nil
	}
	return x.prog.specs.Contracts[x.pkg.PkgPath+"::time.Timer.recv"]
}

// applyRecv: blocking receive: the requires is an obligation ("the receive cannot block forever");
// in a select the clause is only enabled when the requires holds (assumed).
func (x *Exec) applyRecv(st *State, ch ast.Expr, c *Contract, blocking bool, pos token.Pos) {
	pre := st.clone()
	env := x.specEnv(st, pre, nil, c.PkgPath)
	for i, rq := range c.Requires {
		g := env.boolean(rq.Expr)
		if blocking {
			x.assert(st, fmt.Sprintf("recv@time.Timer.%d", i+1), g, "blocking receive from the timer channel can complete: "+rq.Src, pos)
		}
		x.assume(st, g)
	}
	x.applyModifies(st, c)
	post := x.specEnv(st, pre, nil, c.PkgPath)
	for _, en := range c.Ensures {
		x.assume(st, post.boolean(en.Expr))
	}
	x.prog.usedContracts[x.fname+" -> "+c.Key+" [extern]"] = true
}
