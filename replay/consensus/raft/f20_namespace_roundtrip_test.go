package raft

// Witness for finding F20 (property C15): obligation raft.Config.applyJSONConfig#post.datastore-namespace.
// toJSONConfig writes a non-default datastore_namespace, applyJSONConfig never reads it back: a configuration the
// loader accepts is not reproduced by saving and loading it again (the setting silently reverts to the default).

import "testing"

func TestVerifF20DatastoreNamespaceRoundTrip(t *testing.T) {
	cfg := &Config{}
	cfg.Default()
	cfg.DatastoreNamespace = "/my/raft/ns"
	raw, err := cfg.ToJSON()
	if err != nil {
		t.Fatal(err)
	}
	cfg2 := &Config{}
	if err := cfg2.LoadJSON(raw); err != nil {
		t.Fatal(err)
	}
	if cfg2.DatastoreNamespace != cfg.DatastoreNamespace {
		t.Fatalf("saved datastore_namespace %q, loaded %q (saved form: %s)", cfg.DatastoreNamespace, cfg2.DatastoreNamespace, raw)
	}
}
