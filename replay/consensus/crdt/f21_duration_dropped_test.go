package crdt

// Witness for finding F21 (property C15), run in-package against the real code:
//   go test -vet=off -run TestF21 ./consensus/crdt/   (after copying this file there)
// A crdt section whose rebroadcast_interval is not a duration is ACCEPTED by the loader (no error), the
// malformed value is silently replaced by the default, and the well-formed max_batch_age that follows it
// is silently dropped too (ParseDurations stops at the first unparsable value and its error is ignored).

import (
	"testing"
	"time"
)

func TestF21DurationSilentlyDropped(t *testing.T) {
	raw := []byte(`{
		"cluster_name": "test",
		"trusted_peers": ["*"],
		"rebroadcast_interval": "1x",
		"batching": {"max_batch_size": 30, "max_batch_age": "7s", "max_queue_size": 100}
	}`)
	cfg := &Config{}
	cfg.Default()
	def := cfg.Batching.MaxBatchAge
	err := cfg.LoadJSON(raw)
	if err != nil {
		t.Logf("refused, as the property demands: %v", err)
		return
	}
	if cfg.Batching.MaxBatchAge != 7*time.Second {
		t.Errorf("VIOLATION C15: section accepted, but max_batch_age \"7s\" was dropped: got %v (default %v); rebroadcast_interval \"1x\" became %v",
			cfg.Batching.MaxBatchAge, def, cfg.RebroadcastInterval)
	}
}
