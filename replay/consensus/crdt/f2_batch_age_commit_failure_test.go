package crdt

// Witness for finding F2 (property C02): obligation crdt.Consensus.batchWorker#inv1.pres.non-empty-batch-has-a-pending-timer.
// After ONE failed age-triggered commit the worker went back to waiting with a non-empty batch and an
// expired, drained timer: the batch was never committed by age any more, and the next size-triggered
// commit blocked forever on <-batchTimer.C, so later operations were accepted and never applied.

import (
	"context"
	"errors"
	"sync"
	"testing"
	"time"

	"github.com/ipfs/ipfs-cluster/state"
	"github.com/ipfs/ipfs-cluster/test"
)

// failOnceState makes the first Commit fail.
type failOnceState struct {
	state.BatchingState
	mu     sync.Mutex
	failed bool
}

func (f *failOnceState) Commit(ctx context.Context) error {
	f.mu.Lock()
	first := !f.failed
	f.failed = true
	f.mu.Unlock()
	if first {
		return errors.New("injected commit failure")
	}
	return f.BatchingState.Commit(ctx)
}

func TestVerifF2BatchSurvivesFailedAgeCommit(t *testing.T) {
	ctx := context.Background()
	cfg := &Config{}
	cfg.Default()
	cfg.Batching.MaxBatchSize = 3
	cfg.Batching.MaxBatchAge = 300 * time.Millisecond
	cc := testingConsensusWithCfg(t, 1, cfg)
	defer clean(t, cc)
	defer cc.Shutdown(ctx)
	cc.batchingState = &failOnceState{BatchingState: cc.batchingState}

	// one pin: the age-triggered commit fails once
	if err := cc.LogPin(ctx, testPin(test.Cid1)); err != nil {
		t.Fatal(err)
	}
	time.Sleep(3 * cfg.Batching.MaxBatchAge)
	st, _ := cc.State(ctx)
	pins, _ := st.List(ctx)
	if len(pins) != 1 {
		t.Fatalf("the batch was never committed by age after one failed commit: %d pins in the state after 3 x MaxBatchAge", len(pins))
	}
}
