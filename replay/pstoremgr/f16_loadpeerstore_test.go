package pstoremgr

// Witness for finding F16 (property C14): obligation pstoremgr.Manager.LoadPeerstore#inv1.pres.1.
// A line that starts with '/' but is not a multiaddress was logged and then appended as a nil
// address; ImportPeersFromPeerstore then dereferences it (panic at start-up).

import (
	"io/ioutil"
	"os"
	"path/filepath"
	"testing"
)

func TestVerifF16UnparsableLinesAreSkipped(t *testing.T) {
	dir, _ := ioutil.TempDir("", "verif-f16")
	defer os.RemoveAll(dir)
	path := filepath.Join(dir, "peerstore")
	ioutil.WriteFile(path, []byte("/ip4/127.0.0.1/tcp/1234/p2p/QmXZrtE5jQwXNqCJMfHUTQkvhQ4ZAnqMnmzFMJfLewuabc\n/notaprotocol/xx\n"), 0600)
	pm := &Manager{peerstorePath: path}
	addrs := pm.LoadPeerstore()
	for i, a := range addrs {
		if a == nil {
			t.Fatalf("address %d of %d is nil: the unparsable line was not skipped", i, len(addrs))
		}
	}
	if len(addrs) != 1 {
		t.Fatalf("expected 1 address, got %d", len(addrs))
	}
}
