package ipfscluster

// Witness for finding F17 (property C18): obligations ipfscluster.Cluster.Alerts#own.1 and #inv1.init.
// Alerts() read len(c.alerts) BEFORE taking alertsMux and then copied under the lock: an alert that
// arrives in between makes the index total-1-i negative -> panic with the mutex held (every later
// caller deadlocks); run with -race the unsynchronised read is reported as a data race.

import (
	"testing"

	"github.com/ipfs/ipfs-cluster/api"
)

func TestVerifF17AlertsCopySizedUnderLock(t *testing.T) {
	c := &Cluster{}
	done := make(chan struct{})
	go func() {
		defer close(done)
		for i := 0; i < 20000; i++ {
			c.alertsMux.Lock()
			if len(c.alerts) > 50 {
				c.alerts = c.alerts[:0]
			}
			c.alerts = append(c.alerts, api.Alert{})
			c.alertsMux.Unlock()
		}
	}()
	func() {
		defer func() {
			if r := recover(); r != nil {
				t.Fatalf("Alerts() panicked while alerts were arriving: %v", r)
			}
		}()
		for i := 0; i < 20000; i++ {
			select {
			case <-done:
				return
			default:
			}
			_ = c.Alerts()
		}
	}()
	<-done
}
