package ipfscluster

// Witness for finding F11 (property C10): obligation ipfscluster.Cluster.repinFromPeer#post.same-cid-same-options.
// A pin that was created by pin-update keeps its PinUpdate field. When the peer holding it fails,
// repinFromPeer -> pin() took the "update" redirect again: with the update source gone the repin
// failed with "pin is not part of the pinset" and the pin was never re-homed.

import (
	"context"
	"testing"

	"github.com/ipfs/ipfs-cluster/api"
	"github.com/ipfs/ipfs-cluster/datastore/inmem"
	"github.com/ipfs/ipfs-cluster/state"
	"github.com/ipfs/ipfs-cluster/state/dsstate"
	"github.com/ipfs/ipfs-cluster/test"
)

type f11Consensus struct {
	Consensus
	st     *dsstate.State
	logged []*api.Pin
}

func (cc *f11Consensus) LogPin(ctx context.Context, p *api.Pin) error {
	cc.logged = append(cc.logged, p)
	return cc.st.Add(ctx, p)
}
func (cc *f11Consensus) LogUnpin(ctx context.Context, p *api.Pin) error { return cc.st.Rm(ctx, p.Cid) }
func (cc *f11Consensus) State(ctx context.Context) (state.ReadOnly, error) {
	return cc.st, nil
}

func TestVerifF11RepinOfUpdatePin(t *testing.T) {
	ctx := context.Background()
	st, _ := dsstate.New(inmem.New(), "", dsstate.DefaultHandle())
	cfg := &Config{}
	cfg.Default()
	cons := &f11Consensus{st: st}
	cl := &Cluster{ctx: ctx, config: cfg, consensus: cons}

	// a pin created by pin-update from Cid1 (since unpinned), pinned everywhere, named "keepme"
	p := api.PinWithOpts(test.Cid2, api.PinOptions{ReplicationFactorMin: -1, ReplicationFactorMax: -1, Name: "keepme", PinUpdate: test.Cid1})
	st.Add(ctx, p)

	before := len(cons.logged)
	stored, _ := st.Get(ctx, test.Cid2)
	cl.repinFromPeer(ctx, test.PeerID1, stored)
	if len(cons.logged) != before+1 {
		t.Fatalf("the pin created by pin-update was not re-homed: %d pins logged (its update source is gone, pin() redirected to PinUpdate)", len(cons.logged)-before)
	}
	got := cons.logged[len(cons.logged)-1]
	if !got.Cid.Equals(test.Cid2) || got.Name != "keepme" {
		t.Fatalf("re-homed pin lost its identity/options: %+v", got)
	}
}
