package api

// Witness for finding F3 (property C04): obligation api.PinOptions.Equals#post.equal-options.10.
// A request that REMOVES a metadata key compared equal to the stored options before the fix.

import "testing"

func TestVerifF3EqualsMetadataBothWays(t *testing.T) {
	stored := &PinOptions{Metadata: map[string]string{"k": "v"}}
	request := &PinOptions{Metadata: map[string]string{}}
	if request.Equals(stored) {
		t.Fatal("options with metadata key removed compare Equal to the stored options (stored pin would keep the key)")
	}
	if stored.Equals(request) {
		t.Fatal("reverse direction must differ too")
	}
}
