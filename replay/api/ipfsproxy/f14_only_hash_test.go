package ipfsproxy

// Witness for finding F14 (property C12): obligation ipfsproxy.Server.addHandler#post.only-hash-refused.
// /add?only-hash=true was answered with the "not supported" error and then fell through to the
// add pipeline: the content was added and pinned anyway and its output appended to the error body.

import (
	"bytes"
	"context"
	"fmt"
	"io/ioutil"
	"mime/multipart"
	"net/http"
	"strings"
	"testing"
)

func TestVerifF14OnlyHashRefusedWithoutAdding(t *testing.T) {
	ctx := context.Background()
	proxy, mock := testIPFSProxy(t)
	defer mock.Close()
	defer proxy.Shutdown(ctx)

	var body bytes.Buffer
	mw := multipart.NewWriter(&body)
	fw, _ := mw.CreateFormFile("file", "testfile")
	fw.Write([]byte("hello verif"))
	mw.Close()

	res, err := http.Post(fmt.Sprintf("%s/add?only-hash=true", proxyURL(proxy)), mw.FormDataContentType(), &body)
	if err != nil {
		t.Fatal(err)
	}
	defer res.Body.Close()
	out, _ := ioutil.ReadAll(res.Body)
	if res.StatusCode < 400 {
		t.Fatalf("expected an error status, got %d", res.StatusCode)
	}
	if strings.Contains(string(out), "\"Hash\"") {
		t.Fatalf("the request was refused with an error AND performed: add output follows the error body: %s", out)
	}
}
