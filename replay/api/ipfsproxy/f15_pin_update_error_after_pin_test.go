package ipfsproxy

// Witness for finding F15 (property C12): obligation
// ipfsproxy.Server.pinUpdateHandler#post.error-means-nothing-done.
// /pin/update pins the destination (Cluster.PinPath with PinUpdate=<source>) and only then unpins the
// source; when that Unpin fails the request is answered with an error although the PinPath operation
// was performed: "a hijacked request that the proxy answers with an error performs no cluster operation"
// does not hold for this path.

import (
	"context"
	"errors"
	"fmt"
	"net/http"
	"sync"
	"testing"

	cid "github.com/ipfs/go-cid"
	"github.com/ipfs/ipfs-cluster/api"
	"github.com/ipfs/ipfs-cluster/test"
	rpc "github.com/libp2p/go-libp2p-gorpc"
)

type f15Recorder struct {
	mu        sync.Mutex
	performed []string // mutating Cluster operations that returned nil
}

func (r *f15Recorder) done(op string) {
	r.mu.Lock()
	r.performed = append(r.performed, op)
	r.mu.Unlock()
}

type f15Cluster struct{ rec *f15Recorder }
type f15IPFS struct{}

func (c *f15Cluster) PinPath(ctx context.Context, in *api.PinPath, out *api.Pin) error {
	*out = *api.PinWithOpts(test.Cid1, in.PinOptions)
	c.rec.done("PinPath")
	return nil
}

func (c *f15Cluster) Unpin(ctx context.Context, in *api.Pin, out *api.Pin) error {
	return errors.New("f15: the unpin of the source fails")
}

func (i *f15IPFS) Resolve(ctx context.Context, in string, out *cid.Cid) error {
	*out = test.Cid2
	return nil
}

func TestVerifF15PinUpdateErrorAnswerAfterPinPerformed(t *testing.T) {
	ctx := context.Background()
	proxy, mock := testIPFSProxy(t)
	defer mock.Close()
	defer proxy.Shutdown(ctx)

	rec := &f15Recorder{}
	s := rpc.NewServer(nil, "mock")
	c := rpc.NewClientWithServer(nil, "mock", s)
	if err := s.RegisterName("Cluster", &f15Cluster{rec}); err != nil {
		t.Fatal(err)
	}
	if err := s.RegisterName("IPFSConnector", &f15IPFS{}); err != nil {
		t.Fatal(err)
	}
	proxy.SetClient(c)

	url := fmt.Sprintf("%s/pin/update?arg=%s&arg=%s", proxyURL(proxy), test.Cid2, test.Cid1)
	res, err := http.Post(url, "", nil)
	if err != nil {
		t.Fatal(err)
	}
	res.Body.Close()
	if res.StatusCode < 400 {
		t.Fatalf("expected the failing unpin to be reported as an error, got %d", res.StatusCode)
	}
	rec.mu.Lock()
	defer rec.mu.Unlock()
	if len(rec.performed) != 0 {
		t.Fatalf("the request was answered with status %d AND performed %v", res.StatusCode, rec.performed)
	}
}
