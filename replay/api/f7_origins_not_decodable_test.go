package api

// Witness for finding F7 (property C08): obligations api.directive.codec#decodable(Pin.PinOptions.Origins)
// (and PinPath / AddParams): PinOptions.Origins is a []multiaddr.Multiaddr, a slice of INTERFACE values. The
// reflection-based codecs can encode it but cannot decode into it (there is no concrete type to allocate), so a pin
// that carries origins does not survive the msgpack form used by RPC and by the Raft log, nor the JSON form.

import (
	"bytes"
	"encoding/json"
	"testing"

	cid "github.com/ipfs/go-cid"
	multiaddr "github.com/multiformats/go-multiaddr"
	"github.com/ugorji/go/codec"
)

func f7Pin(t *testing.T) *Pin {
	c, err := cid.Decode("QmUaFyXjZUNaUwYF8rBtbJc7fEJ46aJXvgV8z2HHs6jvmJ")
	if err != nil {
		t.Fatal(err)
	}
	ma, err := multiaddr.NewMultiaddr("/ip4/127.0.0.1/tcp/4001/p2p/QmUaFyXjZUNaUwYF8rBtbJc7fEJ46aJXvgV8z2HHs6jvmJ")
	if err != nil {
		t.Fatal(err)
	}
	p := PinCid(c)
	p.Origins = []multiaddr.Multiaddr{ma}
	return p
}

func TestVerifF7OriginsMsgpackRoundTrip(t *testing.T) {
	p := f7Pin(t)
	var buf bytes.Buffer
	h := &codec.MsgpackHandle{}
	if err := codec.NewEncoder(&buf, h).Encode(p); err != nil {
		t.Fatal("encode:", err)
	}
	var q Pin
	if err := codec.NewDecoder(&buf, h).Decode(&q); err != nil {
		t.Fatalf("a pin with origins cannot be decoded from its own msgpack form: %v", err)
	}
	if len(q.Origins) != 1 || !q.Origins[0].Equal(p.Origins[0]) {
		t.Fatalf("origins lost in the msgpack round trip: %v", q.Origins)
	}
}

func TestVerifF7OriginsJSONRoundTrip(t *testing.T) {
	p := f7Pin(t)
	b, err := json.Marshal(p)
	if err != nil {
		t.Fatal("encode:", err)
	}
	var q Pin
	if err := json.Unmarshal(b, &q); err != nil {
		t.Fatalf("a pin with origins cannot be decoded from its own JSON form: %v", err)
	}
	if len(q.Origins) != 1 || !q.Origins[0].Equal(p.Origins[0]) {
		t.Fatalf("origins lost in the JSON round trip: %v", q.Origins)
	}
}
