package rest

// Witnesses for findings F12 and F13 (property C11).
// F12: obligation rest.API.parseCidOrError#post.nil-iff-answered (and parsePinPathOrError): an invalid
//      pin option was answered with 400 AND the pin was returned, so the handler went on to call
//      Cluster.Pin and wrote a second JSON document.
// F13: obligation rest.API.parseCidOrError#post.consistent-depth: mode=direct on /pins/{cid} arrives
//      as Mode=direct with MaxDepth=-1 (recursive).

import (
	"net/http"
	"net/http/httptest"
	"testing"

	"github.com/gorilla/mux"
	"github.com/ipfs/ipfs-cluster/api"
	"github.com/ipfs/ipfs-cluster/test"
)

func TestVerifF12ParseCidOrErrorRefusesOnce(t *testing.T) {
	rest := &API{config: &Config{}}
	rest.config.Default()
	r := httptest.NewRequest("POST", "/pins/"+test.Cid1.String()+"?replication-min=abc", nil)
	r = mux.SetURLVars(r, map[string]string{"hash": test.Cid1.String()})
	w := httptest.NewRecorder()
	pin := rest.parseCidOrError(w, r)
	if w.Code != http.StatusBadRequest {
		t.Fatalf("expected 400, got %d", w.Code)
	}
	if pin != nil {
		t.Fatal("a 400 was answered but the pin was returned too: the handler will perform Cluster.Pin and write a second document")
	}
}

func TestVerifF12ParsePinPathOrErrorRefusesOnce(t *testing.T) {
	rest := &API{config: &Config{}}
	rest.config.Default()
	r := httptest.NewRequest("POST", "/pins/ipfs/"+test.Cid1.String()+"?replication-min=abc", nil)
	r = mux.SetURLVars(r, map[string]string{"keyType": "ipfs", "path": test.Cid1.String()})
	w := httptest.NewRecorder()
	pp := rest.parsePinPathOrError(w, r)
	if w.Code != http.StatusBadRequest {
		t.Fatalf("expected 400, got %d", w.Code)
	}
	if pp != nil {
		t.Fatal("a 400 was answered but the pin path was returned too")
	}
}

func TestVerifF13DirectModeOnCidRoute(t *testing.T) {
	rest := &API{config: &Config{}}
	rest.config.Default()
	r := httptest.NewRequest("POST", "/pins/"+test.Cid1.String()+"?mode=direct", nil)
	r = mux.SetURLVars(r, map[string]string{"hash": test.Cid1.String()})
	w := httptest.NewRecorder()
	pin := rest.parseCidOrError(w, r)
	if pin == nil {
		t.Fatal("unexpected refusal")
	}
	if pin.Mode == api.PinModeDirect && pin.MaxDepth != 0 {
		t.Fatalf("mode=direct arrives with MaxDepth=%d: the pin is handled as recursive", pin.MaxDepth)
	}
}
