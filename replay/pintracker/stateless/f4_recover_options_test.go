package stateless

// Witness for finding F4 (property C05): obligation stateless.Tracker.recoverWithPinInfo#post.recorded-options.
// A pin recorded in DIRECT mode in the shared pinset was re-issued by recover as api.PinCid(c)
// (recursive, depth -1), so IPFS ended up holding it recursively.

import (
	"context"
	"testing"

	"github.com/ipfs/ipfs-cluster/api"
	"github.com/ipfs/ipfs-cluster/test"
)

func TestVerifF4RecoverUsesRecordedOptions(t *testing.T) {
	ctx := context.Background()
	p := api.PinWithOpts(test.Cid4, api.PinOptions{Mode: api.PinModeDirect, ReplicationFactorMin: -1, ReplicationFactorMax: -1, Name: "direct-pin"})
	spt := New(&Config{MaxPinQueueSize: 10, ConcurrentPins: 0}, test.PeerID1, test.PeerName1, getStateFunc(t, p))
	// no workers for pins (ConcurrentPins 0): the re-issued operation stays queued and can be inspected
	defer spt.cancel()
	pi := &api.PinInfo{Cid: test.Cid4, Peer: test.PeerID1, PinInfoShort: api.PinInfoShort{Status: api.TrackerStatusPinError}}
	if _, err := spt.recoverWithPinInfo(ctx, pi); err != nil {
		t.Fatal(err)
	}
	select {
	case op := <-spt.pinCh:
		got := op.Pin()
		if got.Mode != api.PinModeDirect || got.MaxDepth != 0 || got.Name != "direct-pin" {
			t.Fatalf("recover re-issued the pin with mode=%s maxdepth=%d name=%q; the shared pinset records mode=direct maxdepth=0 name=direct-pin", got.Mode, got.MaxDepth, got.Name)
		}
	default:
		t.Fatal("no pin operation was queued")
	}
}
