package stateless

// Witness for finding F5 (property C06): obligation stateless.Tracker.Status#post.same-as-listing-when-missing.
// For a CID that is in the pinset, allocated to this peer and not held by IPFS, the per-CID
// status says pin_error while the listing says unexpectedly_unpinned.

import (
	"context"
	"testing"

	"github.com/ipfs/ipfs-cluster/api"
	"github.com/ipfs/ipfs-cluster/test"
)

func TestVerifF5StatusViewsDisagree(t *testing.T) {
	ctx := context.Background()
	// test.Cid4 is not known to the mock IPFS (only Cid1/Cid2 are listed as pinned)
	p := api.PinWithOpts(test.Cid4, api.PinOptions{ReplicationFactorMin: -1, ReplicationFactorMax: -1})
	spt := testStatelessPinTracker(t, p)
	defer spt.Shutdown(ctx)
	one := spt.Status(ctx, test.Cid4).Status
	var listed api.TrackerStatus
	for _, pi := range spt.StatusAll(ctx, api.TrackerStatusUndefined) {
		if pi.Cid.Equals(test.Cid4) {
			listed = pi.Status
		}
	}
	if one != listed {
		t.Fatalf("Status says %s, StatusAll says %s for the same quiescent situation", one, listed)
	}
}
