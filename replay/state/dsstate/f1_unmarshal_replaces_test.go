package dsstate

// Witness for finding F1 (properties C01, C14): obligation dsstate.State.Unmarshal#post.only-the-snapshot-remains.
// Installing a 1-pin snapshot on a state that already holds 2 other pins leaves 3 pins: Unmarshal
// merges the snapshot into the store instead of replacing its contents.

import (
	"bytes"
	"context"
	"testing"

	cid "github.com/ipfs/go-cid"
	"github.com/ipfs/ipfs-cluster/api"
	"github.com/ipfs/ipfs-cluster/datastore/inmem"
)

func mustCid(s string) cid.Cid {
	c, err := cid.Decode(s)
	if err != nil {
		panic(err)
	}
	return c
}

var (
	f1Cid1 = mustCid("QmP63DkAFEnDYNjDYBpyNDfttu1fvUw99x1brscPzpqmmq")
	f1Cid2 = mustCid("QmP63DkAFEnDYNjDYBpyNDfttu1fvUw99x1brscPzpqmma")
	f1Cid3 = mustCid("QmP63DkAFEnDYNjDYBpyNDfttu1fvUw99x1brscPzpqmmb")
)

func TestVerifF1UnmarshalInstallsExactlyTheSnapshot(t *testing.T) {
	ctx := context.Background()
	src, _ := New(inmem.New(), "", DefaultHandle())
	src.Add(ctx, api.PinCid(f1Cid1))
	var snap bytes.Buffer
	if err := src.Marshal(&snap); err != nil {
		t.Fatal(err)
	}
	dst, _ := New(inmem.New(), "", DefaultHandle())
	dst.Add(ctx, api.PinCid(f1Cid2))
	dst.Add(ctx, api.PinCid(f1Cid3))
	if err := dst.Unmarshal(&snap); err != nil {
		t.Fatal(err)
	}
	pins, _ := dst.List(ctx)
	if len(pins) != 1 {
		t.Fatalf("after installing a 1-pin snapshot the state holds %d pins", len(pins))
	}
}
