#!/bin/bash
# runall.sh [tier] : runs every check registered in MANIFEST.json once and prints one summary line each
TIER=${1:-quick}
for p in $(python3 -c "import json;print(' '.join(c['property_id'] for c in json.load(open('/verif/MANIFEST.json'))['checks']))"); do
  out=$(/verif/vcheck $p $TIER 2>&1); rc=$?
  echo "$p exit=$rc $(echo "$out" | grep -E '^govc: C' | sed 's/govc: //' | cut -c1-170)"
  echo "$out" | grep -E "^(FAILED|VIOLATION|UNDECIDED|VACUOUS)" | cut -c1-200
done
