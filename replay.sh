#!/bin/bash
# replay.sh <file under /verif/replay/<pkgdir>/..._test.go> [-race] : runs a witness test in-package against
# /repo's working tree through go test -overlay (nothing is written to /repo).
set -u
export GOFLAGS=-mod=mod GOPROXY=off GOSUMDB=off GOTOOLCHAIN=local
F="$(readlink -f "$1")"; shift
REPO="${VERIF_REPO:-/repo}"
REL="${F#/verif/replay/}"; PKGDIR="$(dirname "$REL")"; BASE="$(basename "$REL")"
[ "$PKGDIR" = "root" ] && PKGDIR="."
W="$(mktemp -d /var/tmp/govc-replay.XXXXXX)"; trap 'rm -rf "$W"' EXIT
grep -v libp2pquic "$REPO/clusterhost.go" > "$W/clusterhost.go"
grep -v libp2pquic "$REPO/api/rest/restapi.go" > "$W/restapi.go"
cat > "$W/ov.json" <<J
{"Replace":{"$REPO/clusterhost.go":"$W/clusterhost.go","$REPO/api/rest/restapi.go":"$W/restapi.go","$REPO/$PKGDIR/zz_verif_$BASE":"$F"}}
J
RUN="$(grep -o 'func Test[A-Za-z0-9_]*' "$F" | sed 's/func //' | paste -sd'|')"
cd "$REPO/$PKGDIR" && go test -overlay "$W/ov.json" -vet=off -count=1 -timeout 120s -run "^($RUN)\$" "$@" .
