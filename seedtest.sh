#!/bin/bash
# seedtest.sh <SEED-ID> [PROPERTY...] : applies a seeded change to /repo, runs the given property checks
# (default: the seed's own property), and restores /repo. Refuses to run on a dirty /repo.
ID=$1; shift; PROPS="${@:-${ID%%-*}}"
if [ -n "$(git -C /repo status --porcelain)" ]; then echo "seedtest: /repo has uncommitted changes; commit them first" >&2; exit 2; fi
SAVE=$(mktemp -d /var/tmp/govc-evid.XXXXXX); cp -a /verif/evidence/. $SAVE/ 2>/dev/null
/verif/applyseed.sh $ID || { echo "seedtest: cannot apply $ID"; git -C /repo checkout -- .; exit 2; }
for p in $PROPS; do /verif/vcheck $p quick 2>&1 | grep -E "^(FAILED|VIOLATION|govc|UNDECIDED|KNOWN)" | cut -c1-220; done
git -C /repo checkout -- . ; git -C /repo clean -fdq
# evidence files must describe runs on the unchanged tree only: restore them
cp -a $SAVE/. /verif/evidence/ 2>/dev/null; rm -rf $SAVE
