#!/bin/bash
# patchtest.sh <patch.diff> [PROPERTY...] : runs the checks against a scratch CLONE of /repo's HEAD with the
# patch applied (neither /repo nor /verif/evidence is touched, so several can run side by side).
# Prints one line per alarm / undecided function and a summary line.
P=$(readlink -f "$1"); shift
PROPS="${@:-$(python3 -c "import json;print(' '.join(c['property_id'] for c in json.load(open('/verif/MANIFEST.json'))['checks']))")}"
W=$(mktemp -d /var/tmp/govc-ptest.XXXXXX); trap 'rm -rf "$W"' EXIT
git clone -q /repo $W/repo || exit 2
(cd $W/repo && (git apply "$P" 2>/dev/null || patch -p1 -F 8 --no-backup-if-mismatch -s < "$P")) || { echo "$P: DOES-NOT-APPLY"; exit 2; }
export GOVC_EVIDENCE_DIR=$W/evidence GOVC_WORK_DIR=$W/work VERIF_REPO=$W/repo
ALARMS=0; UND=0
for p in $PROPS; do
  out=$(/verif/vcheck $p quick 2>&1); rc=$?
  if [ $rc -ne 0 ]; then ALARMS=$((ALARMS+1)); echo "$(basename $(dirname $P))/$(basename $P): ALARM $p exit=$rc"; echo "$out" | grep -E "^(FAILED|govc: load)" | cut -c1-230; fi
  u=$(echo "$out" | grep -c "^UNDECIDED"); if [ $u -gt 0 ]; then UND=$((UND+u)); echo "$out" | grep "^UNDECIDED" | cut -c1-220; fi
done
echo "$(basename $(dirname $P))/$(basename $P): alarms=$ALARMS undecided=$UND"
